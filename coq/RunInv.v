(* RunInv.v — C01 on the model's full bookkeeping: the stack discipline holds on the (ghost) event trace of
   every process of every run, for every world and every option set. *)
From ZT Require Import Base Layers LayersFacts Run RunFacts.

Section I.
Variable w : rworld.
Hypothesis Hwf : wf (lw w).
Variable o : ropts.
Let n := nlayers (lw w).

Definition stackb (l : nat) : list nat := gather_layers (lw w) l.
Definition sbase (d l : nat) : bool := negb (Nat.eqb d l) && mem l (stackb d).    (* l is a strict base of d *)
Definition layer_of_test (t : nat) : nat := match nth_error (tests w) t with Some b => t_layer b | None => 0 end.

(* the statement as a boolean over a process's ghost trace (every layer visible) *)
Definition gstep (s : list nat * bool * bool) (e : ev) : list nat * bool * bool :=
  let '(act, ni, ok) := s in
  match e with
  | ESetUp l out =>
    (match out with HOk => act ++ [l] | _ => act end, ni,
     ok && negb ni && negb (mem l act) && forallb (fun b => mem b act) (bases_of (lw w) l))
  | ETearDown l out =>
    (filter (fun x => negb (Nat.eqb x l)) act, ni || match out with HNotImpl => true | _ => false end,
     ok && mem l act && forallb (fun d => negb (sbase d l)) act)
  | EStart t => (act, ni, ok && negb ni && seteq act (stackb (layer_of_test t)))
  | _ => s
  end.
Definition greplay (evs : list ev) : list nat * bool * bool := fold_left gstep evs ([], false, true).
Definition c01_trace_ok (evs : list ev) : bool :=
  let '(act, _, ok) := greplay evs in ok && match act with [] => true | _ => false end.

Lemma greplay_app a b : greplay (a ++ b) = fold_left gstep b (greplay a).
Proof. unfold greplay. apply fold_left_app. Qed.

(* ---------------- invariant of a process state ---------------- *)
Definition closed (S : list nat) : Prop := forall x b, In x S -> In b (bases_of (lw w) x) -> In b S.
Record GoodN (ni : bool) (p : pstate) : Prop := {
  g_replay : greplay (ps_ev p) = (ps_setup p, ni, true);
  g_closed : closed (ps_setup p);
  g_nodup : NoDup (ps_setup p);
  g_range : forall x, In x (ps_setup p) -> x < n
}.
Definition Good := GoodN false.

Lemma forallb_mem_all (bs S : list nat) : (forall b, In b bs -> In b S) -> forallb (fun b => mem b S) bs = true.
Proof. intros H. apply forallb_forall. intros b Hb. apply mem_In. auto. Qed.

Lemma NoDup_snoc (S : list nat) l : NoDup S -> ~ In l S -> NoDup (S ++ [l]).
Proof.
  induction 1 as [|x S Hx Hn IH]; simpl; intros Hl; [constructor; [intros []|constructor]|].
  constructor; [|apply IH; tauto]. intros Hin. apply in_app_or in Hin. destruct Hin as [Hin|[->|[]]]; tauto.
Qed.

Definition same_lists (p q : pstate) : Prop :=
  ps_fail q = ps_fail p /\ ps_err q = ps_err p /\ ps_skip q = ps_skip p /\ ps_ran q = ps_ran p.

(* ---------------- setup_layer ---------------- *)
Definition su_post (l : nat) (strict : bool) (p : pstate) (r : pstate * bool) : Prop :=
  Good (fst r) /\ (forall x, In x (ps_setup p) -> In x (ps_setup (fst r)))
  /\ (forall x, In x (ps_setup (fst r)) -> In x (ps_setup p) \/ (if strict then tb (lw w) l x else (x = l \/ tb (lw w) l x)))
  /\ same_lists p (fst r).

Definition fold_bases (f : nat) (bs : list nat) (acc : pstate * bool) : pstate * bool :=
  fold_left (fun (acc : pstate * bool) b => let '(q0, x) := acc in if x then (q0, x) else setup_layer w f b q0) bs acc.

Lemma fold_bases_stuck f bs q : fold_bases f bs (q, true) = (q, true).
Proof. unfold fold_bases. induction bs as [|b bs IH]; simpl; [reflexivity | exact IH]. Qed.
Lemma setup_layer_good : forall fuel l p, Good p -> l < n -> l <= fuel ->
  su_post l false p (setup_layer w fuel l p) /\ (snd (setup_layer w fuel l p) = false -> In l (ps_setup (fst (setup_layer w fuel l p)))).
Proof.
  induction fuel as [|f IH]; intros l p Hg Hl Hf.
  - assert (l = 0) by lia. subst l. simpl. unfold su_post, same_lists. simpl. split; [|discriminate].
    split; [exact Hg|]. split; [auto|]. split; [auto|]. auto.
  - cbn [setup_layer]. destruct (mem l (ps_setup p)) eqn:Em.
    + unfold su_post, same_lists. simpl. split; [|intros _; apply mem_In; exact Em].
      split; [exact Hg|]. split; [auto|]. split; [auto|]. auto.
    + apply mem_false in Em.
      assert (Hfold : forall bs q, Good q -> (forall b, In b bs -> In b (bases_of (lw w) l)) ->
                su_post l true q (fold_bases f bs (q, false)) /\
                (snd (fold_bases f bs (q, false)) = false -> forall b, In b bs -> In b (ps_setup (fst (fold_bases f bs (q, false)))))).
      { induction bs as [|b bs IHb]; intros q Hq Hb.
        - unfold fold_bases, su_post, same_lists. simpl. split; [|intros _ b []]. split; [exact Hq|]. split; [auto|]. split; [auto|]. auto.
        - assert (Hbb : In b (bases_of (lw w) l)) by (apply Hb; now left).
          assert (Hbl : b < l) by (apply Hwf; exact Hbb).
          destruct (IH b q Hq ltac:(lia) ltac:(lia)) as [[G1 [G2 [G3 G4]]] G5].
          unfold fold_bases. cbn [fold_left]. fold (fold_bases f bs (setup_layer w f b q)).
          destruct (setup_layer w f b q) as [q1 x1] eqn:E1. simpl in G1, G2, G3, G4, G5.
          assert (G3' : forall x, In x (ps_setup q1) -> In x (ps_setup q) \/ tb (lw w) l x).
          { intros x Hx. destruct (G3 x Hx) as [H|[->|H]]; [now left | right; now apply tb1 | right; eapply tbS; eauto]. }
          destruct x1.
          + rewrite fold_bases_stuck. unfold su_post. simpl. split; [|discriminate].
            split; [exact G1|]. split; [exact G2|]. split; [exact G3'|exact G4].
          + destruct (IHb q1 G1 (fun b' Hb' => Hb b' (or_intror Hb'))) as [[K1 [K2 [K3 K4]]] K5].
            split.
            * unfold su_post. split; [exact K1|]. split; [intros x Hx; apply K2, G2, Hx|]. split.
              -- intros x Hx. destruct (K3 x Hx) as [H|H]; [|now right]. exact (G3' x H).
              -- unfold same_lists in *. intuition congruence.
            * intros Hs b' [<-|Hb']; [apply K2, G5; reflexivity | apply K5; assumption]. }
      specialize (Hfold (bases_of (lw w) l) p Hg (fun b Hb => Hb)).
      fold (fold_bases f (bases_of (lw w) l) (p, false)).
      destruct (fold_bases f (bases_of (lw w) l) (p, false)) as [p1 exc] eqn:Efold.
      destruct Hfold as [[G1 [G2 [G3 G4]]] G5]. simpl in G1, G2, G3, G4, G5.
      assert (G3' : forall x, In x (ps_setup p1) -> In x (ps_setup p) \/ (x = l \/ tb (lw w) l x)).
      { intros x Hx. destruct (G3 x Hx) as [H|H]; [now left | right; now right]. }
      destruct exc.
      * unfold su_post. simpl. split; [|discriminate]. split; [exact G1|]. split; [exact G2|]. split; [exact G3'|exact G4].
      * specialize (G5 eq_refl).
        assert (Hnl : ~ In l (ps_setup p1)).
        { intros Hin. destruct (G3 l Hin) as [H|H]; [exact (Em H) | apply tb_lt in H; [lia | exact Hwf]]. }
        set (out := match l_setup (spec_of w l) with None => HOk | Some sc => script_at sc (cnt l (ps_att_su p1)) end).
        destruct G1 as [R1 C1 N1 Rg1].
        assert (Hrep : greplay (ps_ev p1 ++ [ESetUp l out]) =
                       (match out with HOk => ps_setup p1 ++ [l] | _ => ps_setup p1 end, false, true)).
        { rewrite greplay_app, R1. simpl. rewrite (proj2 (mem_false l (ps_setup p1)) Hnl). simpl.
          rewrite forallb_mem_all by exact G5. reflexivity. }
        destruct out eqn:Eo.
        -- unfold su_post, same_lists. simpl. split; [|intros _; apply in_or_app; right; now left].
          split; [|split; [|split]].
          ++ constructor; simpl.
             ** exact Hrep.
             ** intros x b Hx Hb. apply in_app_or in Hx. apply in_or_app. destruct Hx as [Hx|[<-|[]]].
                --- left. eapply C1; eauto.
                --- left. apply G5. exact Hb.
             ** apply NoDup_snoc; assumption.
             ** intros x Hx. apply in_app_or in Hx. destruct Hx as [Hx|[<-|[]]]; [apply Rg1; exact Hx | exact Hl].
          ++ intros x Hx. apply in_or_app. left. apply G2. exact Hx.
          ++ intros x Hx. apply in_app_or in Hx. destruct Hx as [Hx|[<-|[]]]; [exact (G3' x Hx) | right; now left].
          ++ unfold same_lists in G4. simpl. tauto.
        -- unfold su_post, same_lists. simpl. split; [|discriminate]. split; [|split; [|split]].
           ++ constructor; simpl; auto.
           ++ exact G2.
           ++ exact G3'.
           ++ unfold same_lists in G4. tauto.
        -- unfold su_post, same_lists. simpl. split; [|discriminate]. split; [|split; [|split]].
           ++ constructor; simpl; auto.
           ++ exact G2.
           ++ exact G3'.
           ++ unfold same_lists in G4. tauto.
Qed.

(* ---------------- tear_down_unneeded ---------------- *)
Definition derived_first (S0 order : list nat) : Prop :=
  forall R1 l R2, order = R1 ++ l :: R2 -> forall d, In d S0 -> sbase d l = true -> In d R1.

Lemma filter_neq_in (S : list nat) l x : In x (filter (fun y => negb (Nat.eqb y l)) S) <-> In x S /\ x <> l.
Proof. rewrite filter_In, negb_true_iff, Nat.eqb_neq. tauto. Qed.

Lemma sbase_direct x b : x < n -> In b (bases_of (lw w) x) -> sbase x b = true.
Proof.
  intros Hx Hb. unfold sbase. apply andb_true_iff. split.
  - apply negb_true_iff, Nat.eqb_neq. apply Hwf in Hb. lia.
  - apply mem_In. unfold stackb. apply (gather_layers_spec (lw w) Hwf x b Hx). right. now apply tb1.
Qed.

Lemma td_loop_good : forall order optional p ni,
  GoodN ni p -> NoDup order -> (forall l, In l order -> In l (ps_setup p)) -> derived_first (ps_setup p) order ->
  let r := td_loop w order optional p in
  exists ni', GoodN ni' (fst r)
    /\ (forall x, In x (ps_setup (fst r)) -> In x (ps_setup p))
    /\ (snd r = false -> forall x, In x (ps_setup (fst r)) <-> In x (ps_setup p) /\ ~ In x order)
    /\ (snd r = false -> optional = false -> ni' = ni)
    /\ (snd r = true -> optional = false)
    /\ ps_fail (fst r) = ps_fail p /\ ps_skip (fst r) = ps_skip p /\ ps_ran (fst r) = ps_ran p
    /\ (exists extra, ps_err (fst r) = ps_err p ++ extra).
Proof.
  induction order as [|l order IH]; intros optional p ni Hg Hnd Hin Hdf.
  - simpl. exists ni. split; [exact Hg|]. split; [auto|]. split; [intros _ x; tauto|]. split; [auto|]. split; [discriminate|].
    repeat split; auto. exists []. now rewrite app_nil_r.
  - cbn [td_loop].
    set (out := match l_teardown (spec_of w l) with None => HOk | Some sc => script_at sc (cnt l (ps_att_td p)) end).
    set (p1 := {| ps_setup := filter (fun x => negb (Nat.eqb x l)) (ps_setup p); ps_att_su := ps_att_su p;
                  ps_att_td := inc l (ps_att_td p); ps_ran := ps_ran p; ps_fail := ps_fail p;
                  ps_err := match out with HRaise => ps_err p ++ [NLayerTearDown l] | _ => ps_err p end;
                  ps_skip := ps_skip p; ps_ev := ps_ev p ++ [ETearDown l out] |}).
    destruct Hg as [R C N Rg].
    assert (Hl : In l (ps_setup p)) by (apply Hin; now left).
    assert (Hno : forallb (fun d => negb (sbase d l)) (ps_setup p) = true).
    { apply forallb_forall. intros d Hd. apply negb_true_iff. destruct (sbase d l) eqn:E; [|reflexivity].
      exfalso. apply (Hdf [] l order eq_refl d Hd E). }
    set (ni1 := ni || match out with HNotImpl => true | _ => false end).
    assert (Hg1 : GoodN ni1 p1).
    { constructor; simpl.
      - rewrite greplay_app, R. simpl. rewrite (proj2 (mem_In l (ps_setup p)) Hl), Hno. reflexivity.
      - intros x b Hx Hb. apply filter_neq_in in Hx. destruct Hx as [Hx Hxl]. apply filter_neq_in. split; [eapply C; eauto|].
        intros ->. (* x has l as a direct base: x derives from l and is still set up *)
        assert (Hs : sbase x l = true) by (apply sbase_direct; [apply Rg; exact Hx | exact Hb]).
        exact (Hdf [] l order eq_refl x Hx Hs).
      - apply NoDup_filter. exact N.
      - intros x Hx. apply filter_neq_in in Hx. apply Rg. tauto. }
    assert (Hnd' : NoDup order) by (inversion Hnd; assumption).
    assert (Hnl : ~ In l order) by (inversion Hnd; assumption).
    assert (Hin' : forall l', In l' order -> In l' (ps_setup p1)).
    { intros l' Hl'. simpl. apply filter_neq_in. split; [apply Hin; now right | intros ->; exact (Hnl Hl')]. }
    assert (Hdf' : derived_first (ps_setup p1) order).
    { intros R1 l' R2 E d Hd Hs. simpl in Hd. apply filter_neq_in in Hd. destruct Hd as [Hd Hdl].
      assert (H : In d (l :: R1)) by (apply (Hdf (l :: R1) l' R2); [simpl; now rewrite E | exact Hd | exact Hs]).
      destruct H as [<-|H]; [congruence | exact H]. }
    assert (Hrec : forall opt, let r := td_loop w order opt p1 in
              exists ni', GoodN ni' (fst r)
              /\ (forall x, In x (ps_setup (fst r)) -> In x (ps_setup p))
              /\ (snd r = false -> forall x, In x (ps_setup (fst r)) <-> In x (ps_setup p) /\ ~ In x (l :: order))
              /\ (snd r = false -> opt = false -> ni' = ni1)
              /\ (snd r = true -> opt = false)
              /\ ps_fail (fst r) = ps_fail p /\ ps_skip (fst r) = ps_skip p /\ ps_ran (fst r) = ps_ran p
              /\ (exists extra, ps_err (fst r) = ps_err p ++ extra)).
    { intros opt. destruct (IH opt p1 ni1 Hg1 Hnd' Hin' Hdf') as [ni' [K1 [K2 [K3 [K4 [K5 [K6 [K7 [K8 [ex K9]]]]]]]]]].
      exists ni'. split; [exact K1|]. split; [intros x Hx; apply K2 in Hx; simpl in Hx; apply filter_neq_in in Hx; tauto|].
      split.
      - intros Hs x. rewrite (K3 Hs x). simpl. rewrite filter_neq_in. simpl. split; [intros [[H1 H2] H3]; split; [exact H1|]; intros [E|E]; [congruence|tauto] |
          intros [H1 H2]; split; [split; [exact H1 | intros ->; apply H2; now left] | intros H3; apply H2; now right]].
      - split; [exact K4|]. split; [exact K5|]. split; [exact K6|]. split; [exact K7|]. split; [exact K8|].
        rewrite K9. simpl. destruct out; [exists ex; reflexivity | exists (NLayerTearDown l :: ex); now rewrite <- app_assoc | exists ex; reflexivity]. }
    destruct out eqn:Eo.
    + destruct (Hrec optional) as [ni' [K1 [K2 [K3 [K4 [K5 K6]]]]]]. exists ni'. split; [exact K1|]. split; [exact K2|]. split; [exact K3|].
      split; [|split; [exact K5 | exact K6]]. intros Hs Ho. rewrite (K4 Hs Ho). unfold ni1. now rewrite orb_false_r.
    + destruct (Hrec optional) as [ni' [K1 [K2 [K3 [K4 [K5 K6]]]]]]. exists ni'. split; [exact K1|]. split; [exact K2|]. split; [exact K3|].
      split; [|split; [exact K5 | exact K6]]. intros Hs Ho. rewrite (K4 Hs Ho). unfold ni1. now rewrite orb_false_r.
    + destruct optional.
      * destruct (Hrec true) as [ni' [K1 [K2 [K3 [K4 [K5 K6]]]]]]. exists ni'. split; [exact K1|]. split; [exact K2|]. split; [exact K3|].
        split; [discriminate|]. split; [exact K5 | exact K6].
      * (* CanNotTearDown: stop here *)
        exists ni1. simpl. split.
        -- destruct Hg1 as [R1 C1 N1 Rg1]. constructor; simpl; auto. rewrite greplay_app. simpl in R1. rewrite R1. reflexivity.
        -- split; [intros x Hx; apply filter_neq_in in Hx; tauto|]. split; [discriminate|]. split; [discriminate|]. split; [reflexivity|].
           repeat split; auto. exists []. now rewrite app_nil_r.
Qed.

Lemma tb_trans a b c : tb (lw w) a b -> tb (lw w) b c -> tb (lw w) a c.
Proof. induction 1 as [a b Hb|a m b Hm _ IH]; intros H; [eapply tbS; eauto | eapply tbS; [exact Hm | apply IH; exact H]]. Qed.

Lemma sbase_tb d l : d < n -> sbase d l = true -> tb (lw w) d l.
Proof.
  unfold sbase, stackb. intros Hd H. apply andb_true_iff in H. destruct H as [H1 H2].
  apply negb_true_iff, Nat.eqb_neq in H1. apply mem_In in H2.
  apply (gather_layers_spec (lw w) Hwf d l Hd) in H2. destruct H2 as [->|H2]; [congruence | exact H2].
Qed.

(* a set of layers that contains, with each layer, its whole stack *)
Definition stack_closed (needed : list nat) : Prop := forall x y, In x needed -> x < n -> tb (lw w) x y -> In y needed.

Lemma stack_is_stack_closed L : L < n -> stack_closed (stackb L).
Proof.
  intros HL x y Hx Hxn Hxy. unfold stackb in *. apply (gather_layers_spec (lw w) Hwf L y HL). right.
  apply (gather_layers_spec (lw w) Hwf L x HL) in Hx. destruct Hx as [->|Hx]; [exact Hxy | eapply tb_trans; eauto].
Qed.

Lemma tdu_good needed optional p ni :
  GoodN ni p -> stack_closed needed ->
  let r := tear_down_unneeded w needed optional p in
  exists ni', GoodN ni' (fst r)
    /\ (forall x, In x (ps_setup (fst r)) -> In x (ps_setup p))
    /\ (snd r = false -> forall x, In x (ps_setup (fst r)) <-> In x (ps_setup p) /\ In x needed)
    /\ (snd r = false -> optional = false -> ni' = ni)
    /\ (snd r = true -> optional = false)
    /\ ps_fail (fst r) = ps_fail p /\ ps_skip (fst r) = ps_skip p /\ ps_ran (fst r) = ps_ran p
    /\ (exists extra, ps_err (fst r) = ps_err p ++ extra).
Proof.
  intros Hg Hsc. unfold tear_down_unneeded.
  set (un := filter (fun x => negb (mem x needed)) (ps_setup p)).
  assert (Hun : forall x, In x un <-> In x (ps_setup p) /\ ~ In x needed).
  { intros x. unfold un. rewrite filter_In, negb_true_iff. rewrite mem_false. tauto. }
  assert (Hrange : in_range (lw w) un).
  { intros x Hx. apply Hun in Hx. apply (g_range _ _ Hg). tauto. }
  set (order := rev (order_by_bases (lw w) un)).
  assert (Ho : forall x, In x order <-> In x un).
  { intros x. unfold order. rewrite <- in_rev. apply obb_in. }
  destruct (td_loop_good order optional p ni Hg) as [ni' [K1 [K2 [K3 [K4 [K5 K6]]]]]].
  - unfold order. apply NoDup_rev. apply obb_nodup.
  - intros l Hl. apply Ho, Hun in Hl. tauto.
  - intros R1 l R2 E d Hd Hs.
    assert (Hdn : d < n) by (apply (g_range _ _ Hg); exact Hd).
    assert (Htb : tb (lw w) d l) by (apply sbase_tb; assumption).
    assert (Hlo : In l un) by (apply Ho; rewrite E; apply in_or_app; right; now left).
    assert (Hdu : In d un).
    { apply Hun. split; [exact Hd|]. intros Hdin. apply Hun in Hlo. apply (proj2 Hlo). eapply Hsc; eauto. }
    eapply (teardown_derived_first w Hwf un d l R1 R2 Htb Hrange Hdu). exact E.
  - exists ni'. split; [exact K1|]. split; [exact K2|]. split; [|split; [exact K4 | split; [exact K5 | exact K6]]].
    intros Hs x. rewrite (K3 Hs x), Ho, Hun. split; [intros [H1 H2]; split; [exact H1|]|intros [H1 H2]; split; [exact H1|tauto]].
    destruct (mem x needed) eqn:E; [apply mem_In; exact E | exfalso; apply H2; split; [exact H1 | apply mem_false; exact E]].
Qed.

(* a tear-down loop that stops does so right after a NotImplementedError *)
Lemma td_loop_cannot_tail : forall order optional p,
  snd (td_loop w order optional p) = true ->
  exists pre l, ps_ev (fst (td_loop w order optional p)) = pre ++ [ETearDown l HNotImpl; ECannot l].
Proof.
  induction order as [|l order IH]; intros optional p H; simpl in *; [discriminate|].
  destruct (match l_teardown (spec_of w l) with None => HOk | Some sc => script_at sc (cnt l (ps_att_td p)) end) eqn:Eo.
  - apply IH in H. exact H.
  - apply IH in H. exact H.
  - destruct optional.
    + apply IH in H. exact H.
    + simpl. exists (ps_ev p), l. rewrite <- app_assoc. reflexivity.
Qed.

Lemma GoodN_cannot ni' p pre l : GoodN ni' p -> ps_ev p = pre ++ [ETearDown l HNotImpl; ECannot l] -> ni' = true.
Proof.
  intros [R _ _ _] E. rewrite E, greplay_app in R. destruct (greplay pre) as [[a b] c]. simpl in R.
  injection R as _ R _. rewrite orb_true_r in R. congruence.
Qed.

(* ---------------- the test loop of a layer leaves the bookkeeping alone ---------------- *)
Definition ev_quiet (l : nat) (e : ev) : Prop :=
  match e with ESetUp _ _ | ETearDown _ _ => False | EStart t => layer_of_test t = l | _ => True end.

Lemma quiet_replay l es S : Forall (ev_quiet l) es -> seteq S (stackb l) = true ->
  fold_left gstep es (S, false, true) = (S, false, true).
Proof.
  induction 1 as [|e es He _ IH]; intros HS; simpl; [reflexivity|].
  destruct e; simpl in He; try (exfalso; exact He); try (apply IH; exact HS).
  cbn [gstep]. rewrite He, HS. simpl. apply IH. exact HS.
Qed.

Lemma p_ev_quiet l t ps : layer_of_test t = l -> Forall (ev_quiet l) (flat_map (p_ev w l t) ps).
Proof.
  intros Ht. induction ps as [|p ps IH]; simpl; [constructor|]. apply Forall_app. split; [|exact IH].
  destruct p; simpl.
  - apply Forall_app. split; [unfold hooks_up; apply Forall_forall; intros e He; apply in_map_iff in He; destruct He as [x [<- _]]; exact I|].
    repeat constructor. exact Ht.
  - apply Forall_app. split; [unfold hooks_up; apply Forall_forall; intros e He; apply in_map_iff in He; destruct He as [x [<- _]]; exact I|].
    repeat constructor. exact Ht.
  - repeat constructor.
  - repeat constructor.
  - apply Forall_app. split; [unfold hooks_down; apply Forall_forall; intros e He; apply in_map_iff in He; destruct He as [x [<- _]]; exact I|].
    repeat constructor.
Qed.

Lemma run_seq_quiet l : forall ts s, (forall t b, In (t, b) ts -> layer_of_test t = l) ->
  exists ext, rs_ev (run_seq w o l ts s) = rs_ev s ++ ext /\ Forall (ev_quiet l) ext.
Proof.
  induction ts as [|[t b] ts IH]; intros s Hts; simpl.
  - exists []. rewrite app_nil_r. split; [reflexivity | constructor].
  - destruct (rs_stop s); [exists []; rewrite app_nil_r; split; [reflexivity | constructor]|].
    destruct (IH (run_test w o l t b s) (fun t' b' H => Hts t' b' (or_intror H))) as [ext [E Q]].
    destruct (run_test_effect w o l t b s) as [_ [_ [_ [_ [_ [_ Hev]]]]]].
    rewrite Hev in E. exists (flat_map (p_ev w l t) (proto b) ++ ext). split; [rewrite E, <- app_assoc; reflexivity|].
    apply Forall_app. split; [apply p_ev_quiet; apply (Hts t b); now left | exact Q].
Qed.

Lemma tests_of_layer l t b : In (t, b) (tests_of w l) -> layer_of_test t = l.
Proof. intros H. apply tests_of_spec in H. destruct H as [H1 H2]. unfold layer_of_test. now rewrite H1. Qed.

Lemma repeat_loop_good : forall k l p, Good p -> seteq (ps_setup p) (stackb l) = true ->
  Good (repeat_loop w o k l p) /\ ps_setup (repeat_loop w o k l p) = ps_setup p.
Proof.
  induction k as [|k IH]; intros l p Hg HS; simpl; [auto|].
  set (rs := run_seq w o l (tests_of w l) rs_init).
  destruct (run_seq_quiet l (tests_of w l) rs_init (tests_of_layer l)) as [ext [E Q]]. simpl in E. fold rs in E.
  set (p1 := {| ps_setup := ps_setup p; ps_att_su := ps_att_su p; ps_att_td := ps_att_td p; ps_ran := rs_run rs;
                ps_fail := ps_fail p ++ rs_fail rs ++ rs_us rs; ps_err := ps_err p ++ rs_err rs; ps_skip := ps_skip p + rs_skip rs;
                ps_ev := ps_ev p ++ rs_ev rs ++ [ESummary l (rs_run rs) (length (rs_fail rs) + length (rs_us rs))
                                                   (length (rs_err rs) + o_import_errors o) (rs_skip rs)] |}).
  assert (Hg1 : Good p1).
  { destruct Hg as [R C N Rg]. constructor; simpl; auto.
    rewrite greplay_app, R, fold_left_app, E. rewrite (quiet_replay l ext (ps_setup p) Q HS). reflexivity. }
  destruct (rs_stop rs); [split; [exact Hg1 | reflexivity]|].
  destruct (IH l p1 Hg1 HS) as [H1 H2]. split; [exact H1 | exact H2].
Qed.

Lemma closed_tb S a x : closed S -> In a S -> tb (lw w) a x -> In x S.
Proof. intros HC Ha H. induction H as [a b Hb|a m b Hm _ IH]; [eapply HC; eauto | apply IH; eapply HC; eauto]. Qed.

Lemma seteq_of_incl (a b : list nat) : (forall x, In x a -> In x b) -> (forall x, In x b -> In x a) -> seteq a b = true.
Proof.
  intros H1 H2. unfold seteq, subset. apply andb_true_iff. split; apply forallb_forall; intros x Hx; apply mem_In; auto.
Qed.

(* Good does not depend on the counters and lists *)
Lemma GoodN_ext ni p q : GoodN ni p -> ps_setup q = ps_setup p -> ps_ev q = ps_ev p -> GoodN ni q.
Proof. intros [R C N Rg] E1 E2. constructor; rewrite ?E1, ?E2; auto. Qed.

Lemma run_layer_good l p : Good p -> l < n ->
  let r := run_layer w o l p in
  (snd r = false -> Good (fst r)) /\ (snd r = true -> GoodN true (fst r)).
Proof.
  intros Hg Hl. unfold run_layer.
  destruct (tdu_good (gather_layers (lw w) l) false p false Hg (stack_is_stack_closed l Hl)) as [ni' [K1 [K2 [K3 [K4 [K5 K6]]]]]].
  destruct (tear_down_unneeded w (gather_layers (lw w) l) false p) as [p1 cannot] eqn:Etd. simpl in K1, K2, K3, K4, K5.
  destruct cannot.
  - simpl. split; [discriminate|]. intros _.
    pose proof (td_loop_cannot_tail (rev (order_by_bases (lw w) (filter (fun x => negb (mem x (gather_layers (lw w) l))) (ps_setup p)))) false p) as Ht.
    unfold tear_down_unneeded in Etd. rewrite Etd in Ht. destruct (Ht eq_refl) as [pre [l0 E]]. simpl in E.
    rewrite (GoodN_cannot ni' p1 pre l0 K1 E) in K1. exact K1.
  - rewrite (K4 eq_refl eq_refl) in K1.
    destruct (setup_layer_good (S (nlayers (lw w))) l p1 K1 Hl ltac:(unfold n in Hl; lia)) as [[G1 [G2 [G3 G4]]] G5].
    destruct (setup_layer w (S (nlayers (lw w))) l p1) as [p2 exc] eqn:Esu. simpl in G1, G2, G3, G5.
    destruct exc; simpl.
    + split; [intros _|discriminate]. eapply GoodN_ext; [exact G1 | reflexivity | reflexivity].
    + split; [intros _|discriminate]. specialize (G5 eq_refl).
      set (p3 := {| ps_setup := ps_setup p2; ps_att_su := ps_att_su p2; ps_att_td := ps_att_td p2; ps_ran := 0;
                    ps_fail := ps_fail p2; ps_err := ps_err p2; ps_skip := ps_skip p2; ps_ev := ps_ev p2 |}).
      assert (Hg3 : Good p3) by (eapply GoodN_ext; [exact G1 | reflexivity | reflexivity]).
      apply (repeat_loop_good (reps o) l p3 Hg3).
      apply seteq_of_incl.
      * intros x Hx. simpl in Hx. unfold stackb. destruct (G3 x Hx) as [H|H].
        -- apply (proj1 (K3 eq_refl x)) in H. destruct H as [_ H]. exact H.
        -- apply (gather_layers_spec (lw w) Hwf l x Hl). exact H.
      * intros x Hx. simpl. unfold stackb in Hx. apply (gather_layers_spec (lw w) Hwf l x Hl) in Hx.
        destruct Hx as [->|Hx]; [exact G5 | eapply closed_tb; [apply (g_closed _ _ G1) | exact G5 | exact Hx]].
Qed.

(* ---------------- a whole process ---------------- *)
Lemma final_teardown ni p : GoodN ni p ->
  c01_trace_ok (ps_ev (fst (tear_down_unneeded w [] true p))) = true.
Proof.
  intros Hg.
  destruct (tdu_good [] true p ni Hg) as [ni' [K1 [K2 [K3 [K4 [K5 K6]]]]]]; [intros x y []|].
  destruct (tear_down_unneeded w [] true p) as [q c] eqn:E. simpl in *.
  assert (Hc : c = false) by (destruct c; [specialize (K5 eq_refl); discriminate | reflexivity]). subst c.
  unfold c01_trace_ok. rewrite (g_replay _ _ K1).
  destruct (ps_setup q) as [|x r] eqn:Es; [reflexivity|].
  exfalso. destruct (proj1 (K3 eq_refl x) (or_introl eq_refl)) as [_ []].
Qed.

Hypothesis Htests : forall t, In t (tests w) -> t_layer t < n.

Lemma parent_loop_good : forall ls p ran k, (forall l, In l ls -> l < n) -> Good p ->
  let '(p', _, _, _, _) := parent_loop w o ls p ran k in exists ni, GoodN ni p'.
Proof.
  induction ls as [|l ls IH]; intros p ran k Hls Hg; simpl; [exists false; exact Hg|].
  destruct (run_layer_good l p Hg (Hls l (or_introl eq_refl))) as [H1 H2].
  destruct (run_layer w o l p) as [p1 cannot]. simpl in H1, H2.
  destruct cannot; [exists true; apply H2; reflexivity|].
  specialize (H1 eq_refl).
  destruct (o_x o && match ps_fail p1, ps_err p1 with [], [] => false | _, _ => true end); [exists false; exact H1|].
  apply IH; [intros l' Hl'; apply Hls; now right | exact H1].
Qed.

Lemma ordered_in_range l : In l (ordered_layers w) -> l < n.
Proof.
  unfold ordered_layers. intros H. apply obb_in in H. unfold layers_with_tests in H.
  assert (Hgen : forall ts acc, (forall t, In t ts -> t_layer t < n) -> (forall x, In x acc -> x < n) ->
            forall x, In x (fold_left (fun acc t => if mem (t_layer t) acc then acc else acc ++ [t_layer t]) ts acc) -> x < n).
  { induction ts as [|t ts IHt]; simpl; intros acc Ht Ha x Hx; [auto|].
    eapply IHt; [intros t' Ht'; apply Ht; now right | | exact Hx].
    destruct (mem (t_layer t) acc); [exact Ha|]. intros y Hy. apply in_app_or in Hy. destruct Hy as [Hy|[<-|[]]]; [auto | apply Ht; now left]. }
  apply (Hgen (tests w) [] Htests (fun x (Hx : In x []) => match Hx with end) l H).
Qed.

Lemma init_good : Good ps_init.
Proof. constructor; simpl; [reflexivity | intros x b [] | constructor | intros x []]. Qed.

(* C01 for the parent process of every run *)
Theorem c01_parent : c01_trace_ok (r_parent (run w o)) = true.
Proof.
  unfold run.
  set (A := if 1 <? o_procs o then _ else _).
  assert (HA : let '(p1, _, _, _, _) := A in exists ni, GoodN ni p1).
  { unfold A. destruct (1 <? o_procs o).
    - exists false. destruct init_good as [R C N Rg]. constructor; simpl; auto.
      unfold pemit. simpl. induction (reps o) as [|k IHk]; simpl; [reflexivity|]. exact IHk.
    - apply parent_loop_good; [apply ordered_in_range | exact init_good]. }
  destruct A as [[[[p1 ran1] rest] resume] n1].
  destruct HA as [ni Hg1].
  set (B := if resume then _ else _). destruct B as [[[cs ran2] f2] e2].
  set (p2 := {| ps_setup := ps_setup p1; ps_att_su := ps_att_su p1; ps_att_td := ps_att_td p1; ps_ran := 0;
                ps_fail := []; ps_err := []; ps_skip := ps_skip p1; ps_ev := ps_ev p1 |}).
  assert (Hg2 : GoodN ni p2) by (eapply GoodN_ext; [exact Hg1 | reflexivity | reflexivity]).
  pose proof (final_teardown ni p2 Hg2) as Hf.
  destruct (tear_down_unneeded w [] true p2) as [p3 c3]. simpl in *. exact Hf.
Qed.

(* … and for every layer subprocess *)
Theorem c01_child l : l < n -> c01_trace_ok (c_ev (child_run w o l)) = true.
Proof.
  intros Hl. unfold child_run.
  destruct (run_layer_good l ps_init init_good Hl) as [H1 H2].
  destruct (run_layer w o l ps_init) as [p1 cannot]. simpl in H1, H2.
  assert (Hg : exists ni, GoodN ni p1) by (destruct cannot; [exists true; apply H2; reflexivity | exists false; apply H1; reflexivity]).
  destruct Hg as [ni Hg]. pose proof (final_teardown ni p1 Hg) as Hf.
  destruct (tear_down_unneeded w [] true p1) as [p2 c2]. simpl in *. exact Hf.
Qed.

Lemma resume_seq_children : forall ls ran f e c,
  In c (fst (fst (fst (resume_seq w o ls ran f e)))) -> exists l, In l ls /\ c = child_run w o l.
Proof.
  induction ls as [|l ls IH]; intros ran f e c H; simpl in H; [destruct H|].
  destruct (o_x o && match f, e with [], [] => false | _, _ => true end); [destruct H|].
  destruct (resume_seq w o ls (ran + c_ran (child_run w o l)) (f ++ c_fail (child_run w o l)) (e ++ c_err (child_run w o l))) as [[[cs r'] f'] e'] eqn:E.
  simpl in H. destruct H as [<-|H]; [exists l; split; [now left | reflexivity]|].
  specialize (IH (ran + c_ran (child_run w o l)) (f ++ c_fail (child_run w o l)) (e ++ c_err (child_run w o l)) c).
  rewrite E in IH. simpl in IH. destruct (IH H) as [l' [H1 H2]]. exists l'. split; [now right | exact H2].
Qed.

Lemma parent_loop_rest : forall ls p ran k l,
  In l (snd (fst (fst (parent_loop w o ls p ran k)))) -> In l ls.
Proof.
  induction ls as [|x ls IH]; intros p ran k l H; simpl in H; [destruct H|].
  destruct (run_layer w o x p) as [p1 cannot]. destruct cannot; [simpl in H; exact H|].
  destruct (o_x o && match ps_fail p1, ps_err p1 with [], [] => false | _, _ => true end); [simpl in H; now right|].
  right. eapply IH. exact H.
Qed.

Theorem c01_children : forall c, In c (r_children (run w o)) -> c01_trace_ok (c_ev c) = true.
Proof.
  intros c Hc.
  assert (Hl : exists l, In l (ordered_layers w) /\ c = child_run w o l).
  { unfold run in Hc.
    destruct (1 <? o_procs o) eqn:Ep.
    - cbn zeta in Hc. cbv beta iota in Hc.
      destruct (resume_seq w o (ordered_layers w) 0 _ _) as [[[cs r2] f2] e2] eqn:E.
      destruct (tear_down_unneeded w [] true _) as [p3 c3]. simpl in Hc.
      pose proof (resume_seq_children (ordered_layers w) 0 (ps_fail (pemit ps_init (repeat (ESummary (nlayers (lw w)) 0 0 (o_import_errors o) 0) (reps o))))
                    (ps_err (pemit ps_init (repeat (ESummary (nlayers (lw w)) 0 0 (o_import_errors o) 0) (reps o)))) c) as H.
      simpl in H. simpl in E. rewrite E in H. apply H. exact Hc.
    - destruct (parent_loop w o (ordered_layers w) ps_init 0 0) as [[[[p1 ran1] rest] resume] n1] eqn:Epl.
      destruct resume.
      + destruct (resume_seq w o rest ran1 (ps_fail p1) (ps_err p1)) as [[[cs r2] f2] e2] eqn:E.
        destruct (tear_down_unneeded w [] true _) as [p3 c3]. simpl in Hc.
        pose proof (resume_seq_children rest ran1 (ps_fail p1) (ps_err p1) c) as H. rewrite E in H. simpl in H.
        destruct (H Hc) as [l [H1 H2]]. exists l. split; [|exact H2].
        pose proof (parent_loop_rest (ordered_layers w) ps_init 0 0 l) as Hr. rewrite Epl in Hr. apply Hr. exact H1.
      + destruct (tear_down_unneeded w [] true _) as [p3 c3]. simpl in Hc. destruct Hc. }
  destruct Hl as [l [H1 ->]]. apply c01_child. apply ordered_in_range. exact H1.
Qed.
End I.
