(* RunInv.v — C01 on the model's full bookkeeping: the stack discipline holds on the (ghost) event trace of
   every process of every run, for every world and every option set. *)
From ZT Require Import Base Layers LayersFacts Run RunFacts.

Section I.
Variable w : rworld.
Hypothesis Hwf : wf (lw w).
Variable o : ropts.
Let n := nlayers (lw w).

Definition stackb (l : nat) : list nat := gather_layers (lw w) l.
Definition sbase (d l : nat) : bool := negb (Nat.eqb d l) && mem l (stackb d).    (* l is a strict base of d *)
Definition layer_of_test (t : nat) : nat := match nth_error (tests w) t with Some b => t_layer b | None => 0 end.

(* the statement as a boolean over a process's ghost trace (every layer visible) *)
Definition gstep (s : list nat * bool * bool) (e : ev) : list nat * bool * bool :=
  let '(act, ni, ok) := s in
  match e with
  | ESetUp l out =>
    (match out with HOk => act ++ [l] | _ => act end, ni,
     ok && negb ni && negb (mem l act) && forallb (fun b => mem b act) (bases_of (lw w) l))
  | ETearDown l out =>
    (filter (fun x => negb (Nat.eqb x l)) act, ni || match out with HNotImpl => true | _ => false end,
     ok && mem l act && forallb (fun d => negb (sbase d l)) act)
  | EStart t => (act, ni, ok && negb ni && seteq act (stackb (layer_of_test t)))
  | _ => s
  end.
Definition greplay (evs : list ev) : list nat * bool * bool := fold_left gstep evs ([], false, true).
Definition c01_trace_ok (evs : list ev) : bool :=
  let '(act, _, ok) := greplay evs in ok && match act with [] => true | _ => false end.

Lemma greplay_app a b : greplay (a ++ b) = fold_left gstep b (greplay a).
Proof. unfold greplay. apply fold_left_app. Qed.

(* ---------------- invariant of a process state ---------------- *)
Definition closed (S : list nat) : Prop := forall x b, In x S -> In b (bases_of (lw w) x) -> In b S.
Record GoodN (ni : bool) (p : pstate) : Prop := {
  g_replay : greplay (ps_ev p) = (ps_setup p, ni, true);
  g_closed : closed (ps_setup p);
  g_nodup : NoDup (ps_setup p);
  g_range : forall x, In x (ps_setup p) -> x < n
}.
Definition Good := GoodN false.

Lemma forallb_mem_all (bs S : list nat) : (forall b, In b bs -> In b S) -> forallb (fun b => mem b S) bs = true.
Proof. intros H. apply forallb_forall. intros b Hb. apply mem_In. auto. Qed.

Lemma NoDup_snoc (S : list nat) l : NoDup S -> ~ In l S -> NoDup (S ++ [l]).
Proof.
  induction 1 as [|x S Hx Hn IH]; simpl; intros Hl; [constructor; [intros []|constructor]|].
  constructor; [|apply IH; tauto]. intros Hin. apply in_app_or in Hin. destruct Hin as [Hin|[->|[]]]; tauto.
Qed.

Definition same_lists (p q : pstate) : Prop :=
  ps_fail q = ps_fail p /\ ps_err q = ps_err p /\ ps_skip q = ps_skip p /\ ps_ran q = ps_ran p.

(* ---------------- setup_layer ---------------- *)
Definition su_post (l : nat) (strict : bool) (p : pstate) (r : pstate * bool) : Prop :=
  Good (fst r) /\ (forall x, In x (ps_setup p) -> In x (ps_setup (fst r)))
  /\ (forall x, In x (ps_setup (fst r)) -> In x (ps_setup p) \/ (if strict then x < l else x <= l))
  /\ same_lists p (fst r).

Definition fold_bases (f : nat) (bs : list nat) (acc : pstate * bool) : pstate * bool :=
  fold_left (fun (acc : pstate * bool) b => let '(q0, x) := acc in if x then (q0, x) else setup_layer w f b q0) bs acc.

Lemma fold_bases_stuck f bs q : fold_bases f bs (q, true) = (q, true).
Proof. unfold fold_bases. induction bs as [|b bs IH]; simpl; [reflexivity | exact IH]. Qed.
Lemma setup_layer_good : forall fuel l p, Good p -> l < n -> l <= fuel ->
  su_post l false p (setup_layer w fuel l p) /\ (snd (setup_layer w fuel l p) = false -> In l (ps_setup (fst (setup_layer w fuel l p)))).
Proof.
  induction fuel as [|f IH]; intros l p Hg Hl Hf.
  - assert (l = 0) by lia. subst l. simpl. unfold su_post, same_lists. simpl. split; [|discriminate].
    split; [exact Hg|]. split; [auto|]. split; [auto|]. auto.
  - cbn [setup_layer]. destruct (mem l (ps_setup p)) eqn:Em.
    + unfold su_post, same_lists. simpl. split; [|intros _; apply mem_In; exact Em].
      split; [exact Hg|]. split; [auto|]. split; [auto|]. auto.
    + apply mem_false in Em.
      assert (Hfold : forall bs q, Good q -> (forall b, In b bs -> b < l) ->
                su_post l true q (fold_bases f bs (q, false)) /\
                (snd (fold_bases f bs (q, false)) = false -> forall b, In b bs -> In b (ps_setup (fst (fold_bases f bs (q, false)))))).
      { induction bs as [|b bs IHb]; intros q Hq Hb.
        - unfold fold_bases, su_post, same_lists. simpl. split; [|intros _ b []]. split; [exact Hq|]. split; [auto|]. split; [auto|]. auto.
        - assert (Hbl : b < l) by (apply Hb; now left).
          destruct (IH b q Hq ltac:(lia) ltac:(lia)) as [[G1 [G2 [G3 G4]]] G5].
          unfold fold_bases. cbn [fold_left]. fold (fold_bases f bs (setup_layer w f b q)).
          destruct (setup_layer w f b q) as [q1 x1] eqn:E1. simpl in G1, G2, G3, G4, G5.
          destruct x1.
          + rewrite fold_bases_stuck. unfold su_post. simpl. split; [|discriminate].
            split; [exact G1|]. split; [exact G2|]. split; [|exact G4].
            intros x Hx. destruct (G3 x Hx) as [H|H]; [now left | right; lia].
          + destruct (IHb q1 G1 (fun b' Hb' => Hb b' (or_intror Hb'))) as [[K1 [K2 [K3 K4]]] K5].
            split.
            * unfold su_post. split; [exact K1|]. split; [intros x Hx; apply K2, G2, Hx|]. split.
              -- intros x Hx. destruct (K3 x Hx) as [H|H]; [|now right]. destruct (G3 x H) as [H'|H']; [now left | right; lia].
              -- unfold same_lists in *. intuition congruence.
            * intros Hs b' [<-|Hb']; [apply K2, G5; reflexivity | apply K5; assumption]. }
      specialize (Hfold (bases_of (lw w) l) p Hg (fun b Hb => Hwf l b Hb)).
      fold (fold_bases f (bases_of (lw w) l) (p, false)).
      destruct (fold_bases f (bases_of (lw w) l) (p, false)) as [p1 exc] eqn:Efold.
      destruct Hfold as [[G1 [G2 [G3 G4]]] G5]. simpl in G1, G2, G3, G4, G5.
      destruct exc.
      * unfold su_post. simpl. split; [|discriminate]. split; [exact G1|]. split; [exact G2|]. split; [|exact G4].
        intros x Hx. destruct (G3 x Hx) as [H|H]; [now left | right; lia].
      * specialize (G5 eq_refl).
        assert (Hnl : ~ In l (ps_setup p1)).
        { intros Hin. destruct (G3 l Hin) as [H|H]; [exact (Em H) | lia]. }
        set (out := match l_setup (spec_of w l) with None => HOk | Some sc => script_at sc (cnt l (ps_att_su p1)) end).
        destruct G1 as [R1 C1 N1 Rg1].
        assert (Hrep : greplay (ps_ev p1 ++ [ESetUp l out]) =
                       (match out with HOk => ps_setup p1 ++ [l] | _ => ps_setup p1 end, false, true)).
        { rewrite greplay_app, R1. simpl. rewrite (proj2 (mem_false l (ps_setup p1)) Hnl). simpl.
          rewrite forallb_mem_all by exact G5. reflexivity. }
        destruct out eqn:Eo.
        -- (* success *)
          unfold su_post, same_lists. simpl. split; [|intros _; apply in_or_app; right; now left].
          split; [|split; [|split]].
          ++ constructor; simpl.
             ** exact Hrep.
             ** intros x b Hx Hb. apply in_app_or in Hx. apply in_or_app. destruct Hx as [Hx|[<-|[]]].
                --- left. eapply C1; eauto.
                --- left. apply G5. exact Hb.
             ** apply NoDup_snoc; assumption.
             ** intros x Hx. apply in_app_or in Hx. destruct Hx as [Hx|[<-|[]]]; [apply Rg1; exact Hx | exact Hl].
          ++ intros x Hx. apply in_or_app. left. apply G2. exact Hx.
          ++ intros x Hx. apply in_app_or in Hx. destruct Hx as [Hx|[<-|[]]]; [|right; lia].
             destruct (G3 x Hx) as [H|H]; [now left | right; lia].
          ++ unfold same_lists in G4. simpl. tauto.
        -- unfold su_post, same_lists. simpl. split; [|discriminate]. split; [|split; [|split]].
           ++ constructor; simpl; auto.
           ++ exact G2.
           ++ intros x Hx. destruct (G3 x Hx) as [H|H]; [now left | right; lia].
           ++ unfold same_lists in G4. tauto.
        -- unfold su_post, same_lists. simpl. split; [|discriminate]. split; [|split; [|split]].
           ++ constructor; simpl; auto.
           ++ exact G2.
           ++ intros x Hx. destruct (G3 x Hx) as [H|H]; [now left | right; lia].
           ++ unfold same_lists in G4. tauto.
Qed.

(* ---------------- tear_down_unneeded ---------------- *)
Definition derived_first (S0 order : list nat) : Prop :=
  forall R1 l R2, order = R1 ++ l :: R2 -> forall d, In d S0 -> sbase d l = true -> In d R1.

Lemma filter_neq_in (S : list nat) l x : In x (filter (fun y => negb (Nat.eqb y l)) S) <-> In x S /\ x <> l.
Proof. rewrite filter_In, negb_true_iff, Nat.eqb_neq. tauto. Qed.

Lemma sbase_direct x b : x < n -> In b (bases_of (lw w) x) -> sbase x b = true.
Proof.
  intros Hx Hb. unfold sbase. apply andb_true_iff. split.
  - apply negb_true_iff, Nat.eqb_neq. apply Hwf in Hb. lia.
  - apply mem_In. unfold stackb. apply (gather_layers_spec (lw w) Hwf x b Hx). right. now apply tb1.
Qed.

Lemma td_loop_good : forall order optional p ni,
  GoodN ni p -> NoDup order -> (forall l, In l order -> In l (ps_setup p)) -> derived_first (ps_setup p) order ->
  let r := td_loop w order optional p in
  exists ni', GoodN ni' (fst r)
    /\ (forall x, In x (ps_setup (fst r)) -> In x (ps_setup p))
    /\ (snd r = false -> forall x, In x (ps_setup (fst r)) <-> In x (ps_setup p) /\ ~ In x order)
    /\ (snd r = false -> optional = false -> ni' = ni)
    /\ (snd r = true -> optional = false)
    /\ ps_fail (fst r) = ps_fail p /\ ps_skip (fst r) = ps_skip p /\ ps_ran (fst r) = ps_ran p
    /\ (exists extra, ps_err (fst r) = ps_err p ++ extra).
Proof.
  induction order as [|l order IH]; intros optional p ni Hg Hnd Hin Hdf.
  - simpl. exists ni. split; [exact Hg|]. split; [auto|]. split; [intros _ x; tauto|]. split; [auto|]. split; [discriminate|].
    repeat split; auto. exists []. now rewrite app_nil_r.
  - cbn [td_loop].
    set (out := match l_teardown (spec_of w l) with None => HOk | Some sc => script_at sc (cnt l (ps_att_td p)) end).
    set (p1 := {| ps_setup := filter (fun x => negb (Nat.eqb x l)) (ps_setup p); ps_att_su := ps_att_su p;
                  ps_att_td := inc l (ps_att_td p); ps_ran := ps_ran p; ps_fail := ps_fail p;
                  ps_err := match out with HRaise => ps_err p ++ [NLayerTearDown l] | _ => ps_err p end;
                  ps_skip := ps_skip p; ps_ev := ps_ev p ++ [ETearDown l out] |}).
    destruct Hg as [R C N Rg].
    assert (Hl : In l (ps_setup p)) by (apply Hin; now left).
    assert (Hno : forallb (fun d => negb (sbase d l)) (ps_setup p) = true).
    { apply forallb_forall. intros d Hd. apply negb_true_iff. destruct (sbase d l) eqn:E; [|reflexivity].
      exfalso. apply (Hdf [] l order eq_refl d Hd E). }
    set (ni1 := ni || match out with HNotImpl => true | _ => false end).
    assert (Hg1 : GoodN ni1 p1).
    { constructor; simpl.
      - rewrite greplay_app, R. simpl. rewrite (proj2 (mem_In l (ps_setup p)) Hl), Hno. reflexivity.
      - intros x b Hx Hb. apply filter_neq_in in Hx. destruct Hx as [Hx Hxl]. apply filter_neq_in. split; [eapply C; eauto|].
        intros ->. (* x has l as a direct base: x derives from l and is still set up *)
        assert (Hs : sbase x l = true) by (apply sbase_direct; [apply Rg; exact Hx | exact Hb]).
        exact (Hdf [] l order eq_refl x Hx Hs).
      - apply NoDup_filter. exact N.
      - intros x Hx. apply filter_neq_in in Hx. apply Rg. tauto. }
    assert (Hnd' : NoDup order) by (inversion Hnd; assumption).
    assert (Hnl : ~ In l order) by (inversion Hnd; assumption).
    assert (Hin' : forall l', In l' order -> In l' (ps_setup p1)).
    { intros l' Hl'. simpl. apply filter_neq_in. split; [apply Hin; now right | intros ->; exact (Hnl Hl')]. }
    assert (Hdf' : derived_first (ps_setup p1) order).
    { intros R1 l' R2 E d Hd Hs. simpl in Hd. apply filter_neq_in in Hd. destruct Hd as [Hd Hdl].
      assert (H : In d (l :: R1)) by (apply (Hdf (l :: R1) l' R2); [simpl; now rewrite E | exact Hd | exact Hs]).
      destruct H as [<-|H]; [congruence | exact H]. }
    assert (Hrec : forall opt, let r := td_loop w order opt p1 in
              exists ni', GoodN ni' (fst r)
              /\ (forall x, In x (ps_setup (fst r)) -> In x (ps_setup p))
              /\ (snd r = false -> forall x, In x (ps_setup (fst r)) <-> In x (ps_setup p) /\ ~ In x (l :: order))
              /\ (snd r = false -> opt = false -> ni' = ni1)
              /\ (snd r = true -> opt = false)
              /\ ps_fail (fst r) = ps_fail p /\ ps_skip (fst r) = ps_skip p /\ ps_ran (fst r) = ps_ran p
              /\ (exists extra, ps_err (fst r) = ps_err p ++ extra)).
    { intros opt. destruct (IH opt p1 ni1 Hg1 Hnd' Hin' Hdf') as [ni' [K1 [K2 [K3 [K4 [K5 [K6 [K7 [K8 [ex K9]]]]]]]]]].
      exists ni'. split; [exact K1|]. split; [intros x Hx; apply K2 in Hx; simpl in Hx; apply filter_neq_in in Hx; tauto|].
      split.
      - intros Hs x. rewrite (K3 Hs x). simpl. rewrite filter_neq_in. simpl. split; [intros [[H1 H2] H3]; split; [exact H1|]; intros [E|E]; [congruence|tauto] |
          intros [H1 H2]; split; [split; [exact H1 | intros ->; apply H2; now left] | intros H3; apply H2; now right]].
      - split; [exact K4|]. split; [exact K5|]. split; [exact K6|]. split; [exact K7|]. split; [exact K8|].
        rewrite K9. simpl. destruct out; [exists ex; reflexivity | exists (NLayerTearDown l :: ex); now rewrite <- app_assoc | exists ex; reflexivity]. }
    destruct out eqn:Eo.
    + destruct (Hrec optional) as [ni' [K1 [K2 [K3 [K4 [K5 K6]]]]]]. exists ni'. split; [exact K1|]. split; [exact K2|]. split; [exact K3|].
      split; [|split; [exact K5 | exact K6]]. intros Hs Ho. rewrite (K4 Hs Ho). unfold ni1. now rewrite orb_false_r.
    + destruct (Hrec optional) as [ni' [K1 [K2 [K3 [K4 [K5 K6]]]]]]. exists ni'. split; [exact K1|]. split; [exact K2|]. split; [exact K3|].
      split; [|split; [exact K5 | exact K6]]. intros Hs Ho. rewrite (K4 Hs Ho). unfold ni1. now rewrite orb_false_r.
    + destruct optional.
      * destruct (Hrec true) as [ni' [K1 [K2 [K3 [K4 [K5 K6]]]]]]. exists ni'. split; [exact K1|]. split; [exact K2|]. split; [exact K3|].
        split; [discriminate|]. split; [exact K5 | exact K6].
      * (* CanNotTearDown: stop here *)
        exists ni1. simpl. split.
        -- destruct Hg1 as [R1 C1 N1 Rg1]. constructor; simpl; auto. rewrite greplay_app. simpl in R1. rewrite R1. reflexivity.
        -- split; [intros x Hx; apply filter_neq_in in Hx; tauto|]. split; [discriminate|]. split; [discriminate|]. split; [reflexivity|].
           repeat split; auto. exists []. now rewrite app_nil_r.
Qed.

Lemma tb_trans a b c : tb (lw w) a b -> tb (lw w) b c -> tb (lw w) a c.
Proof. induction 1 as [a b Hb|a m b Hm _ IH]; intros H; [eapply tbS; eauto | eapply tbS; [exact Hm | apply IH; exact H]]. Qed.

Lemma sbase_tb d l : d < n -> sbase d l = true -> tb (lw w) d l.
Proof.
  unfold sbase, stackb. intros Hd H. apply andb_true_iff in H. destruct H as [H1 H2].
  apply negb_true_iff, Nat.eqb_neq in H1. apply mem_In in H2.
  apply (gather_layers_spec (lw w) Hwf d l Hd) in H2. destruct H2 as [->|H2]; [congruence | exact H2].
Qed.

(* a set of layers that contains, with each layer, its whole stack *)
Definition stack_closed (needed : list nat) : Prop := forall x y, In x needed -> x < n -> tb (lw w) x y -> In y needed.

Lemma stack_is_stack_closed L : L < n -> stack_closed (stackb L).
Proof.
  intros HL x y Hx Hxn Hxy. unfold stackb in *. apply (gather_layers_spec (lw w) Hwf L y HL). right.
  apply (gather_layers_spec (lw w) Hwf L x HL) in Hx. destruct Hx as [->|Hx]; [exact Hxy | eapply tb_trans; eauto].
Qed.

Lemma tdu_good needed optional p ni :
  GoodN ni p -> stack_closed needed ->
  let r := tear_down_unneeded w needed optional p in
  exists ni', GoodN ni' (fst r)
    /\ (forall x, In x (ps_setup (fst r)) -> In x (ps_setup p))
    /\ (snd r = false -> forall x, In x (ps_setup (fst r)) <-> In x (ps_setup p) /\ In x needed)
    /\ (snd r = false -> optional = false -> ni' = ni)
    /\ (snd r = true -> optional = false)
    /\ ps_fail (fst r) = ps_fail p /\ ps_skip (fst r) = ps_skip p /\ ps_ran (fst r) = ps_ran p
    /\ (exists extra, ps_err (fst r) = ps_err p ++ extra).
Proof.
  intros Hg Hsc. unfold tear_down_unneeded.
  set (un := filter (fun x => negb (mem x needed)) (ps_setup p)).
  assert (Hun : forall x, In x un <-> In x (ps_setup p) /\ ~ In x needed).
  { intros x. unfold un. rewrite filter_In, negb_true_iff. rewrite mem_false. tauto. }
  assert (Hrange : in_range (lw w) un).
  { intros x Hx. apply Hun in Hx. apply (g_range _ _ Hg). tauto. }
  set (order := rev (order_by_bases (lw w) un)).
  assert (Ho : forall x, In x order <-> In x un).
  { intros x. unfold order. rewrite <- in_rev. apply obb_in. }
  destruct (td_loop_good order optional p ni Hg) as [ni' [K1 [K2 [K3 [K4 [K5 K6]]]]]].
  - unfold order. apply NoDup_rev. apply obb_nodup.
  - intros l Hl. apply Ho, Hun in Hl. tauto.
  - intros R1 l R2 E d Hd Hs.
    assert (Hdn : d < n) by (apply (g_range _ _ Hg); exact Hd).
    assert (Htb : tb (lw w) d l) by (apply sbase_tb; assumption).
    assert (Hlo : In l un) by (apply Ho; rewrite E; apply in_or_app; right; now left).
    assert (Hdu : In d un).
    { apply Hun. split; [exact Hd|]. intros Hdin. apply Hun in Hlo. apply (proj2 Hlo). eapply Hsc; eauto. }
    eapply (teardown_derived_first w Hwf un d l R1 R2 Htb Hrange Hdu). exact E.
  - exists ni'. split; [exact K1|]. split; [exact K2|]. split; [|split; [exact K4 | split; [exact K5 | exact K6]]].
    intros Hs x. rewrite (K3 Hs x), Ho, Hun. split; [intros [H1 H2]; split; [exact H1|]|intros [H1 H2]; split; [exact H1|tauto]].
    destruct (mem x needed) eqn:E; [apply mem_In; exact E | exfalso; apply H2; split; [exact H1 | apply mem_false; exact E]].
Qed.
End I.
