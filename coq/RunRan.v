(* RunRan.v — the "tests run" figure of a run (C12): without --repeat the total number of tests run that a run
   reports is the sum, over the test starts of all its processes (parent and layer subprocesses), of the started
   test's countTestCases(). *)
From ZT Require Import Base Layers LayersFacts Run RunFacts RunLedger RunOnce.

Section N.
Variable w : rworld.
Variable o : ropts.
Hypothesis Htests : forall t, In t (tests w) -> t_layer t < nlayers (lw w).
Hypothesis Hreps : reps o = 1.

Notation st := (total (nrun_ev w)).

Lemma setup_layer_quiet_gen (f : ev -> nat) : (forall l h, f (ESetUp l h) = 0) ->
  forall fuel l p, total f (ps_ev (fst (setup_layer w fuel l p))) = total f (ps_ev p).
Proof.
  intros F0. induction fuel as [|fu IH]; intros l p; [reflexivity|]. cbn [setup_layer].
  destruct (mem l (ps_setup p)); [reflexivity|].
  set (F := fun (acc : pstate * bool) b => let '(q, x) := acc in if x then (q, x) else setup_layer w fu b q).
  assert (Hfold : forall bs q x, total f (ps_ev (fst (fold_left F bs (q, x)))) = total f (ps_ev q)).
  { induction bs as [|b bs IHb]; intros q x; simpl; [reflexivity|].
    destruct x; [apply IHb|]. specialize (IH b q). destruct (setup_layer w fu b q) as [q1 x1]. simpl in IH.
    rewrite IHb. exact IH. }
  specialize (Hfold (bases_of (lw w) l) p false).
  destruct (fold_left F (bases_of (lw w) l) (p, false)) as [p1 exc]. simpl in Hfold.
  destruct exc; [exact Hfold|]. cbn [fst ps_ev]. rewrite total_app. simpl. rewrite F0. lia.
Qed.

Lemma repeat1_ran l p :
  st (ps_ev (repeat_loop w o 1 l p)) = st (ps_ev p) + ps_ran (repeat_loop w o 1 l p).
Proof.
  simpl. set (rs := run_seq w o l (tests_of w l) rs_init).
  destruct (run_seq_ledger w o l (tests_of w l) rs_init (fun t b H => proj1 (proj1 (tests_of_spec w l t b) H)) (rs_init_ledger w)) as [_ [_ [_ H4]]]. fold rs in H4.
  destruct (rs_stop rs); cbn [ps_ev ps_ran]; rewrite !total_app, H4; simpl; lia.
Qed.

Lemma run_layer_ran l p :
  st (ps_ev (fst (run_layer w o l p))) =
  st (ps_ev p) + (if snd (run_layer w o l p) then 0 else ps_ran (fst (run_layer w o l p))).
Proof.
  unfold run_layer, tear_down_unneeded.
  pose proof (td_loop_quiet w (nrun_ev w) (fun _ _ => eq_refl) (fun _ => eq_refl)
                (rev (order_by_bases (lw w) (filter (fun x => negb (mem x (gather_layers (lw w) l))) (ps_setup p)))) false p) as Ht.
  destruct (td_loop w _ false p) as [p1 cannot]. simpl in Ht. destruct cannot; [simpl; lia|].
  pose proof (setup_layer_quiet_gen (nrun_ev w) (fun _ _ => eq_refl) (S (nlayers (lw w))) l p1) as Hs.
  destruct (setup_layer w (S (nlayers (lw w))) l p1) as [p2 exc]. simpl in Hs. destruct exc.
  - cbn [fst snd ps_ev ps_ran]. lia.
  - cbn [fst snd]. rewrite Hreps, repeat1_ran. cbn [ps_ev]. lia.
Qed.

Lemma parent_loop_ran : forall ls p ran n,
  let '(p', ran', _, _, _) := parent_loop w o ls p ran n in
  st (ps_ev p') + ran = st (ps_ev p) + ran'.
Proof.
  induction ls as [|l ls IH]; intros p ran n; simpl; [lia|].
  pose proof (run_layer_ran l p) as Hl. destruct (run_layer w o l p) as [p1 cannot]. simpl in Hl. destruct cannot; [lia|].
  destruct (o_x o && match ps_fail p1, ps_err p1 with [], [] => false | _, _ => true end); [lia|].
  specialize (IH p1 (ran + ps_ran p1) (S n)).
  destruct (parent_loop w o ls p1 (ran + ps_ran p1) (S n)) as [[[[p' ran'] rest] resume] n']. lia.
Qed.

Lemma child_ran l : st (c_ev (child_run w o l)) = c_ran (child_run w o l).
Proof.
  unfold child_run. pose proof (run_layer_ran l ps_init) as H.
  assert (Hc : snd (run_layer w o l ps_init) = false).
  { unfold run_layer, tear_down_unneeded. simpl ps_setup. cbn [filter].
    destruct (td_loop w (rev (order_by_bases (lw w) [])) false ps_init) as [p1 c1] eqn:E.
    assert (c1 = false) by (simpl in E; congruence). subst c1.
    destruct (setup_layer w (S (nlayers (lw w))) l p1) as [p2 exc]. destruct exc; reflexivity. }
  destruct (run_layer w o l ps_init) as [p1 c1]. simpl in Hc, H. subst c1. unfold tear_down_unneeded.
  pose proof (td_loop_quiet w (nrun_ev w) (fun _ _ => eq_refl) (fun _ => eq_refl)
                (rev (order_by_bases (lw w) (filter (fun x => negb (mem x [])) (ps_setup p1)))) true p1) as Ht.
  destruct (td_loop w _ true p1) as [p2 c2]. simpl in Ht. cbn [c_ev c_ran]. rewrite Ht, H. simpl. lia.
Qed.

Lemma resume_seq_ran : forall ls ran f e,
  let '(cs, ran', _, _) := resume_seq w o ls ran f e in ran' = ran + sum_children (nrun_ev w) cs.
Proof.
  induction ls as [|l ls IH]; intros ran f e; simpl; [lia|].
  destruct (o_x o && match f, e with [], [] => false | _, _ => true end); [simpl; lia|].
  specialize (IH (ran + c_ran (child_run w o l)) (f ++ c_fail (child_run w o l)) (e ++ c_err (child_run w o l))).
  destruct (resume_seq w o ls _ _ _) as [[[cs r'] f'] e']. simpl. rewrite child_ran. lia.
Qed.

Theorem run_ran : r_ran (run w o) = st (r_parent (run w o)) + sum_children (nrun_ev w) (r_children (run w o)).
Proof.
  unfold run.
  set (A := if 1 <? o_procs o then _ else _).
  assert (HA : let '(p1, ran1, _, _, _) := A in st (ps_ev p1) = ran1).
  { unfold A. destruct (1 <? o_procs o).
    - simpl. rewrite Hreps. reflexivity.
    - pose proof (parent_loop_ran (ordered_layers w) ps_init 0 0) as H.
      destruct (parent_loop w o (ordered_layers w) ps_init 0 0) as [[[[p' ran'] rest] resume] n']. simpl in H. lia. }
  destruct A as [[[[p1 ran1] rest] resume] n1].
  set (B := if resume then _ else _).
  assert (HB : let '(cs, ran2, _, _) := B in ran2 = ran1 + sum_children (nrun_ev w) cs).
  { unfold B. destruct resume; [apply resume_seq_ran | simpl; lia]. }
  destruct B as [[[cs ran2] f2] e2].
  unfold tear_down_unneeded.
  match goal with |- context [td_loop w ?ord true ?p2] =>
    pose proof (td_loop_quiet w (nrun_ev w) (fun _ _ => eq_refl) (fun _ => eq_refl) ord true p2) as Ht; destruct (td_loop w ord true p2) as [p3 c3] end.
  simpl in Ht. cbn [r_ran r_parent r_children]. rewrite Ht. lia.
Qed.
End N.
