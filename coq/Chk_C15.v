(* Chk_C15.v — case type and checker for C15 (stale byte-code cleanup). *)
From ZT Require Import Base Tree Bytecode BytecodeAfter.

Record case := {
  tree : list entry;        (* the scratch directory before the run *)
  roots : list path;        (* test paths, relative to the scratch directory, in option order *)
  ign : list str;           (* options.ignore_dir as observed *)
  keep : bool;              (* -k or --usecompiled given *)
  deleted : list path;      (* implementation: files present before and absent after *)
  untouched : bool          (* implementation: every surviving file has its old content, nothing new appeared *)
}.

Definition path_eqb := list_eqb str_eqb.
Definition pmem (p : path) (l : list path) := existsb (path_eqb p) l.
Definition pset_eq (a b : list path) := forallb (fun p => pmem p b) a && forallb (fun p => pmem p a) b.

Definition model_deleted (c : case) : list path :=
  flat_map (cleanup_root (ign c) (keep c) (tree c)) (roots c).

(* the statement, on the flat list of file paths — written without the tree recursion *)
Fixpoint strip_prefix (r p : path) : option path :=
  match r, p with
  | [], _ => Some p
  | a :: r', b :: p' => if str_eqb a b then strip_prefix r' p' else None
  | _ :: _, [] => None
  end.
Definition should_delete (c : case) (files : list path) (p : path) : bool :=
  negb (keep c) &&
  existsb (fun r =>
    match strip_prefix r p with
    | Some rest =>
      match rev rest with
      | f :: rdirs =>
        forallb (fun d => negb (smem d (ign c)) && negb (str_eqb d s_pycache)) rdirs
        && compiled f
        && negb (pmem (removelast p ++ [drop1 f]) files)
      | [] => false
      end
    | None => false
    end) (roots c).

Definition c15_ok (c : case) : bool :=
  let files := all_files (tree c) in
  untouched c
  && forallb (fun p => Bool.eqb (pmem p (deleted c)) (should_delete c files p)) files
  && forallb (fun p => pmem p files) (deleted c).

(* the tree the model leaves behind (BytecodeAfter.after_dir) against the files that survived, when the scratch root is the one test path *)
Definition after_agrees (c : case) : bool :=
  match roots c, keep c with
  | [[]], false => pset_eq (all_files (after_dir (ign c) (tree c)))
                           (filter (fun p => negb (pmem p (deleted c))) (all_files (tree c)))
  | _, _ => true
  end.

Definition check (c : case) : nat :=
  bit (negb (pset_eq (model_deleted c) (deleted c) && after_agrees c)) 1
  + bit (negb (c15_ok c)) 2.
