(* RunBracket.v — whole-run statement of C05 on the run model: the event trace of every process of a run is a
   sequence of layer events and complete test blocks
       testSetUp hooks (bases first) · start of t · t's own phases and results · testTearDown hooks (mirrored) · stop of t
   where t is a selected test and the hooks are those of t's own layer stack.  Hence no hook call outside a
   block, no block without its hooks, hooks balanced per layer, around every test whatever its outcome. *)
From ZT Require Import Base Layers LayersFacts Run RunFacts.

Definition layer_ev (e : ev) : bool :=
  match e with ESetUp _ _ | ETearDown _ _ | ESummary _ _ _ _ _ | ECannot _ => true | _ => false end.

(* a layer event; a layer without the hook "succeeds" (ghost event with outcome HOk) *)
Definition lev_ok (w : rworld) (e : ev) : Prop :=
  layer_ev e = true /\
  match e with
  | ESetUp l out => l_setup (spec_of w l) = None -> out = HOk
  | ETearDown l out => l_teardown (spec_of w l) = None -> out = HOk
  | _ => True
  end.

Inductive wb (w : rworld) : list ev -> Prop :=
| wb_nil : wb w []
| wb_layer e r : lev_ok w e -> wb w r -> wb w (e :: r)
| wb_test l t b mid r :
    nth_error (tests w) t = Some b -> t_layer b = l -> Forall (is_inner_ev t) mid -> wb w r ->
    wb w (hooks_up w l ++ EStart t :: mid ++ hooks_down w l ++ EStop t :: r).

Section B.
Variable w : rworld.
Variable o : ropts.

Lemma wb_app a b : wb w a -> wb w b -> wb w (a ++ b).
Proof.
  intros Ha Hb. induction Ha as [|e r He Hr IH|l t b0 mid r Hn Hl Hm Hr IH]; simpl; [exact Hb | constructor; assumption|].
  replace ((hooks_up w l ++ EStart t :: mid ++ hooks_down w l ++ EStop t :: r) ++ b)
    with (hooks_up w l ++ EStart t :: mid ++ hooks_down w l ++ EStop t :: (r ++ b)).
  - econstructor; eassumption.
  - rewrite <- !app_assoc. simpl. rewrite <- !app_assoc. simpl. reflexivity.
Qed.

Lemma wb_snoc a e : wb w a -> lev_ok w e -> wb w (a ++ [e]).
Proof. intros Ha He. apply wb_app; [exact Ha | constructor; [exact He | constructor]]. Qed.

Lemma run_test_wb l t b s : nth_error (tests w) t = Some b -> t_layer b = l ->
  wb w (rs_ev s) -> wb w (rs_ev (run_test w o l t b s)).
Proof.
  intros Hn Hl Hs. destruct (run_test_bracket w o l t b s) as [mid [E [Hm _]]]. rewrite E.
  apply wb_app; [exact Hs|].
  replace (hooks_up w l ++ EStart t :: mid ++ hooks_down w l ++ [EStop t])
    with (hooks_up w l ++ EStart t :: mid ++ hooks_down w l ++ EStop t :: []) by reflexivity.
  econstructor; try eassumption. constructor.
Qed.

Lemma run_seq_wb l : forall ts s, (forall t b, In (t, b) ts -> nth_error (tests w) t = Some b /\ t_layer b = l) ->
  wb w (rs_ev s) -> wb w (rs_ev (run_seq w o l ts s)).
Proof.
  induction ts as [|[t b] ts IH]; intros s Hts Hs; simpl; [exact Hs|].
  destruct (rs_stop s); [exact Hs|]. apply IH; [intros t' b' H; apply Hts; now right|].
  destruct (Hts t b (or_introl eq_refl)) as [H1 H2]. apply run_test_wb; assumption.
Qed.

Lemma repeat_loop_wb : forall n l p, wb w (ps_ev p) -> wb w (ps_ev (repeat_loop w o n l p)).
Proof.
  induction n as [|n IH]; intros l p Hp; simpl; [exact Hp|].
  set (rs := run_seq w o l (tests_of w l) rs_init).
  assert (Hrs : wb w (rs_ev rs)).
  { apply run_seq_wb; [|constructor]. intros t b H. apply tests_of_spec in H. exact H. }
  assert (H1 : wb w (ps_ev p ++ rs_ev rs ++ [ESummary l (rs_run rs) (length (rs_fail rs) + length (rs_us rs))
                                   (length (rs_err rs) + o_import_errors o) (rs_skip rs)])).
  { apply wb_app; [exact Hp|]. apply wb_snoc; [exact Hrs | split; [reflexivity | exact I]]. }
  destruct (rs_stop rs); [exact H1|]. apply IH. exact H1.
Qed.

Lemma setup_layer_wb : forall fuel l p, wb w (ps_ev p) -> wb w (ps_ev (fst (setup_layer w fuel l p))).
Proof.
  induction fuel as [|f IH]; intros l p Hp; [exact Hp|]. cbn [setup_layer].
  destruct (mem l (ps_setup p)); [exact Hp|].
  set (F := fun (acc : pstate * bool) b => let '(q, x) := acc in if x then (q, x) else setup_layer w f b q).
  assert (Hfold : forall bs q x, wb w (ps_ev q) -> wb w (ps_ev (fst (fold_left F bs (q, x))))).
  { induction bs as [|b bs IHb]; intros q x Hq; simpl; [exact Hq|].
    destruct x; [apply IHb; exact Hq|]. specialize (IH b q Hq). destruct (setup_layer w f b q) as [q1 x1]. apply IHb. exact IH. }
  specialize (Hfold (bases_of (lw w) l) p false Hp).
  destruct (fold_left F (bases_of (lw w) l) (p, false)) as [p1 exc]. simpl in Hfold.
  destruct exc; [exact Hfold|]. cbn [fst ps_ev]. apply wb_snoc; [exact Hfold|].
  split; [reflexivity|]. intros E0. rewrite E0. reflexivity.
Qed.

Lemma td_loop_wb : forall order optional p, wb w (ps_ev p) -> wb w (ps_ev (fst (td_loop w order optional p))).
Proof.
  induction order as [|l order IH]; intros optional p Hp; simpl; [exact Hp|].
  set (out := match l_teardown (spec_of w l) with None => HOk | Some sc => script_at sc (cnt l (ps_att_td p)) end).
  set (p1 := {| ps_setup := filter (fun x => negb (Nat.eqb x l)) (ps_setup p); ps_att_su := ps_att_su p;
                ps_att_td := inc l (ps_att_td p); ps_ran := ps_ran p; ps_fail := ps_fail p;
                ps_err := match out with HRaise => ps_err p ++ [NLayerTearDown l] | _ => ps_err p end;
                ps_skip := ps_skip p; ps_ev := ps_ev p ++ [ETearDown l out] |}).
  assert (H1 : wb w (ps_ev p1)).
  { unfold p1. cbn [ps_ev]. apply wb_snoc; [exact Hp|]. split; [reflexivity|]. intros E0. unfold out. rewrite E0. reflexivity. }
  destruct out; [apply IH; exact H1 | apply IH; exact H1 |]. destruct optional; [apply IH; exact H1|].
  cbn [fst pemit ps_ev]. apply wb_snoc; [exact H1 | split; [reflexivity | exact I]].
Qed.

Lemma run_layer_wb l p : wb w (ps_ev p) -> wb w (ps_ev (fst (run_layer w o l p))).
Proof.
  intros Hp. unfold run_layer, tear_down_unneeded.
  pose proof (td_loop_wb (rev (order_by_bases (lw w) (filter (fun x => negb (mem x (gather_layers (lw w) l))) (ps_setup p)))) false p Hp) as Ht.
  destruct (td_loop w _ false p) as [p1 cannot]. simpl in Ht. destruct cannot; [exact Ht|].
  pose proof (setup_layer_wb (S (nlayers (lw w))) l p1 Ht) as Hs.
  destruct (setup_layer w (S (nlayers (lw w))) l p1) as [p2 exc]. simpl in Hs.
  destruct exc; [exact Hs|]. cbn [fst]. apply repeat_loop_wb. exact Hs.
Qed.

Lemma parent_loop_wb : forall ls p ran n, wb w (ps_ev p) -> wb w (ps_ev (fst (fst (fst (fst (parent_loop w o ls p ran n)))))).
Proof.
  induction ls as [|l ls IH]; intros p ran n Hp; simpl; [exact Hp|].
  pose proof (run_layer_wb l p Hp) as Hl. destruct (run_layer w o l p) as [p1 cannot]. simpl in Hl.
  destruct cannot; [exact Hl|].
  destruct (o_x o && match ps_fail p1, ps_err p1 with [], [] => false | _, _ => true end); [exact Hl|].
  apply IH. exact Hl.
Qed.

Theorem child_wb l : wb w (c_ev (child_run w o l)).
Proof.
  unfold child_run. pose proof (run_layer_wb l ps_init (wb_nil w)) as H. destruct (run_layer w o l ps_init) as [p1 c1].
  simpl in H. unfold tear_down_unneeded.
  pose proof (td_loop_wb (rev (order_by_bases (lw w) (filter (fun x => negb (mem x [])) (ps_setup p1)))) true p1 H) as H2.
  destruct (td_loop w _ true p1) as [p2 c2]. exact H2.
Qed.

Lemma resume_seq_children : forall ls ran f e c, In c (fst (fst (fst (resume_seq w o ls ran f e)))) -> exists l, c = child_run w o l.
Proof.
  induction ls as [|l ls IH]; intros ran f e c; simpl; [intros []|].
  destruct (o_x o && match f, e with [], [] => false | _, _ => true end); [intros []|].
  specialize (IH (ran + c_ran (child_run w o l)) (f ++ c_fail (child_run w o l)) (e ++ c_err (child_run w o l)) c).
  destruct (resume_seq w o ls _ _ _) as [[[cs r'] f'] e']. simpl in *.
  intros [<-|H]; [exists l; reflexivity | apply IH; exact H].
Qed.

Theorem run_wb :
  wb w (r_parent (run w o)) /\ forall c, In c (r_children (run w o)) -> wb w (c_ev c).
Proof.
  unfold run.
  set (A := if 1 <? o_procs o then _ else _).
  assert (HA : wb w (ps_ev (fst (fst (fst (fst A)))))).
  { unfold A. destruct (1 <? o_procs o).
    - simpl. induction (reps o) as [|k IHk]; simpl; [constructor | constructor; [split; [reflexivity | exact I] | exact IHk]].
    - apply parent_loop_wb. constructor. }
  destruct A as [[[[p1 ran1] rest] resume] n1]. simpl in HA.
  set (B := if resume then _ else _).
  assert (HB : forall c, In c (fst (fst (fst B))) -> exists l, c = child_run w o l).
  { unfold B. destruct resume; [apply resume_seq_children | intros c []]. }
  destruct B as [[[cs ran2] f2] e2]. simpl in HB.
  set (p2 := {| ps_setup := ps_setup p1; ps_att_su := ps_att_su p1; ps_att_td := ps_att_td p1; ps_ran := 0;
                ps_fail := []; ps_err := []; ps_skip := ps_skip p1; ps_ev := ps_ev p1 |}).
  unfold tear_down_unneeded.
  pose proof (td_loop_wb (rev (order_by_bases (lw w) (filter (fun x => negb (mem x [])) (ps_setup p2)))) true p2 HA) as Ht.
  destruct (td_loop w _ true p2) as [p3 c3]. simpl in Ht. cbn [r_parent r_children].
  split; [exact Ht|]. intros c Hc. destruct (HB c Hc) as [l ->]. apply child_wb.
Qed.
End B.

(* consequences of the block structure: hooks are balanced per layer in every process *)
Definition n_tsu (x : nat) (e : ev) : nat := match e with ETSetUp y => if Nat.eqb y x then 1 else 0 | _ => 0 end.
Definition n_ttd (x : nat) (e : ev) : nat := match e with ETTearDown y => if Nat.eqb y x then 1 else 0 | _ => 0 end.
Definition count (f : ev -> nat) (l : list ev) : nat := fold_right (fun e a => f e + a) 0 l.
Lemma count_app f a b : count f (a ++ b) = count f a + count f b.
Proof. induction a as [|x a IH]; simpl; [reflexivity|]. rewrite IH. lia. Qed.

(* a layer that defines both hooks sees as many testTearDown as testSetUp calls in every well-bracketed trace *)
Theorem wb_balanced w x : l_tsetup (spec_of w x) = l_tteardown (spec_of w x) ->
  forall tr, wb w tr -> count (n_tsu x) tr = count (n_ttd x) tr.
Proof.
  intros Hboth tr H. induction H as [|e r He Hr IH|l t b mid r Hn Hl Hm Hr IH]; [reflexivity| |].
  - simpl. rewrite IH. destruct He as [He _]. destruct e; simpl in He; try discriminate; reflexivity.
  - rewrite !count_app. simpl. rewrite !count_app. simpl. rewrite IH.
    assert (Hmid : count (n_tsu x) mid = 0 /\ count (n_ttd x) mid = 0).
    { clear - Hm. induction Hm as [|e mid He _ IHm]; [auto|]. simpl. destruct IHm as [-> ->].
      destruct e; simpl in He; try contradiction; auto. }
    destruct Hmid as [-> ->].
    assert (Hup : count (n_ttd x) (hooks_up w l) = 0).
    { unfold hooks_up. induction (filter _ _) as [|y ys IHy]; simpl; [reflexivity | exact IHy]. }
    assert (Hdn : count (n_tsu x) (hooks_down w l) = 0).
    { unfold hooks_down. induction (filter _ _) as [|y ys IHy]; simpl; [reflexivity | exact IHy]. }
    rewrite Hup, Hdn.
    assert (Hcnt : forall (L : list nat) (g : nat -> bool), count (n_tsu x) (map ETSetUp (filter g L)) =
                     count (n_ttd x) (map ETTearDown (filter g L))).
    { intros L g. induction (filter g L) as [|y ys IHy]; simpl; [reflexivity|]. rewrite IHy. reflexivity. }
    assert (Hrev : forall L : list nat, count (n_ttd x) (map ETTearDown (rev L)) = count (n_ttd x) (map ETTearDown L)).
    { induction L as [|y ys IHy]; simpl; [reflexivity|]. rewrite map_app, count_app, IHy. simpl. lia. }
    unfold hooks_up, hooks_down. rewrite filter_rev, Hrev.
    assert (Hfx : count (n_tsu x) (map ETSetUp (filter (fun y => l_tsetup (spec_of w y)) (test_layers w l))) =
                  count (n_ttd x) (map ETTearDown (filter (fun y => l_tteardown (spec_of w y)) (test_layers w l)))).
    { induction (test_layers w l) as [|y ys IHy]; simpl; [reflexivity|].
      destruct (Nat.eqb y x) eqn:E.
      - apply Nat.eqb_eq in E. subst y. rewrite Hboth. destruct (l_tteardown (spec_of w x)); simpl; rewrite ?Nat.eqb_refl, IHy; reflexivity.
      - destruct (l_tsetup (spec_of w y)), (l_tteardown (spec_of w y)); simpl; rewrite ?E, IHy; reflexivity. }
    rewrite Hfx. lia.
Qed.
