From ZT Require Import Base Restore.

Lemma gget_gset_eq g f v : gget (gset g f v) f = v.
Proof. induction g as [|[k w] r IH]; simpl; [now rewrite Nat.eqb_refl|]. destruct (Nat.eqb k f) eqn:E; simpl; rewrite E; auto. Qed.
Lemma gget_gset_ne g f f' v : f <> f' -> gget (gset g f v) f' = gget g f'.
Proof.
  intros H. induction g as [|[k w] r IH]; simpl.
  - destruct (Nat.eqb f f') eqn:E; [apply Nat.eqb_eq in E; congruence | reflexivity].
  - destruct (Nat.eqb k f) eqn:E; simpl.
    + apply Nat.eqb_eq in E. subst k. destruct (Nat.eqb f f') eqn:E2; [apply Nat.eqb_eq in E2; congruence | reflexivity].
    + destruct (Nat.eqb k f'); auto.
Qed.

Lemma gequiv_refl g : gequiv g g. Proof. intros f; reflexivity. Qed.
Lemma gequiv_trans a b c : gequiv a b -> gequiv b c -> gequiv a c.
Proof. intros H1 H2 f. now rewrite H1. Qed.
Lemma gset_equiv a b f v : gequiv a b -> gequiv (gset a f v) (gset b f v).
Proof.
  intros H f'. destruct (Nat.eq_dec f f') as [->|Hne].
  - now rewrite !gget_gset_eq.
  - rewrite !gget_gset_ne by assumption. apply H.
Qed.

(* installing and then restoring is the identity, whatever happened in between as long as the inner
   computation itself gave the state back *)
Lemma install_restore : forall ws g g1 s inner,
  install ws g = (g1, s) -> gequiv inner g1 -> gequiv (restore_saved s inner) g.
Proof.
  induction ws as [|[f v] r IH]; simpl; intros g g1 s inner E Hin.
  - injection E as <- <-. exact Hin.
  - destruct (install r (gset g f v)) as [g' s'] eqn:E'. injection E as <- <-. simpl.
    specialize (IH _ _ _ inner E' Hin).
    intros f'. destruct (Nat.eq_dec f f') as [->|Hne].
    + now rewrite gget_gset_eq.
    + rewrite gget_gset_ne by assumption. rewrite IH. now rewrite gget_gset_ne.
Qed.

(* C18: if the test phase gives back the state it found (normal or exceptional end alike — the tear-downs run in a
   finally clause), the whole run gives back the state it found, for every subset and order of active features *)
Theorem run_restores_globals : forall fs phase,
  (forall g, gequiv (phase g) g) -> forall g, gequiv (with_features fs phase g) g.
Proof.
  induction fs as [|f r IH]; simpl; intros phase Hp g; [apply Hp|].
  destruct (install (f_writes f) g) as [g1 s] eqn:E.
  eapply install_restore; [exact E|]. apply IH. exact Hp.
Qed.

(* while the phase runs, the fields a feature installed carry the installed values (unless a later feature
   overwrites them) — used by the correspondence check on probe tests *)
Lemma install_get : forall ws g f v, In (f, v) ws -> NoDup (map fst ws) ->
  gget (fst (install ws g)) f = v.
Proof.
  induction ws as [|[f0 v0] r IH]; simpl; intros g f v Hin Hnd; [destruct Hin|].
  inversion Hnd as [|? ? Hn Hr]; subst.
  destruct (install r (gset g f0 v0)) as [g' s'] eqn:E. simpl.
  destruct Hin as [Heq|Hin].
  - injection Heq as -> ->.
    assert (H : forall ws g, ~ In f (map fst ws) -> gget (fst (install ws g)) f = gget g f).
    { clear. induction ws as [|[a b] ws IH]; simpl; intros g Hn; [reflexivity|].
      destruct (install ws (gset g a b)) as [g' s'] eqn:E. simpl.
      specialize (IH (gset g a b)). rewrite E in IH. simpl in IH. rewrite IH by tauto.
      apply gget_gset_ne. intros ->. apply Hn. now left. }
    specialize (H r (gset g f v) Hn). rewrite E in H. simpl in H. rewrite H. apply gget_gset_eq.
  - specialize (IH (gset g f0 v0) f v Hin Hr). rewrite E in IH. exact IH.
Qed.
