(* RunNames.v — names-level ledger (C12, C02, C07): the failure list a run reports is a permutation of the names
   carried by the failure events (failing tests and subtests, unexpected successes) of all its processes, and the
   error list — apart from the "layer set-up failed" entries, which name the layer being run rather than the layer
   whose setUp raised — is a permutation of the names carried by the error events (erroring tests and subtests,
   layer tearDown errors) of all its processes.  Nothing is listed that did not happen; nothing that happened is
   missing; nothing is listed twice. *)
From Coq Require Import Permutation.
From ZT Require Import Base Layers LayersFacts Run RunFacts RunLedger RunBracket.

Definition fnames (e : ev) : list name :=
  match e with
  | EResult t RFail _ => [NTest t] | EResult t RSubFail k => [NSub t k] | EResult t RUS _ => [NTest t]
  | _ => [] end.
Definition enames (e : ev) : list name :=
  match e with
  | EResult t RErr _ => [NTest t] | EResult t RSubErr k => [NSub t k]
  | ETearDown l HRaise => [NLayerTearDown l]
  | _ => [] end.
Definition nonsetup (n : name) : bool := match n with NLayerSetUp _ => false | _ => true end.

Section N.
Variable w : rworld.
Variable o : ropts.

(* ---------------- the result object ---------------- *)
Lemma hooks_up_names l : flat_map fnames (hooks_up w l) = [] /\ flat_map enames (hooks_up w l) = [].
Proof. unfold hooks_up. induction (filter _ _) as [|x r [I1 I2]]; simpl; auto. Qed.
Lemma hooks_down_names l : flat_map fnames (hooks_down w l) = [] /\ flat_map enames (hooks_down w l) = [].
Proof. unfold hooks_down. induction (filter _ _) as [|x r [I1 I2]]; simpl; auto. Qed.

Lemma pev_names l t p :
  Permutation (flat_map fnames (p_ev w l t p)) (p_fail t p ++ p_us t p) /\ flat_map enames (p_ev w l t p) = p_err t p.
Proof.
  destruct (hooks_up_names l) as [U1 U2]. destruct (hooks_down_names l) as [D1 D2].
  destruct p as [| |ph k|r k|]; simpl; rewrite ?flat_map_app, ?U1, ?U2, ?D1, ?D2; simpl; auto.
  destruct r; simpl; auto.
Qed.

Lemma block_names l t : forall ps,
  Permutation (flat_map fnames (flat_map (p_ev w l t) ps)) (flat_map (p_fail t) ps ++ flat_map (p_us t) ps) /\
  flat_map enames (flat_map (p_ev w l t) ps) = flat_map (p_err t) ps.
Proof.
  induction ps as [|p ps [I1 I2]]; simpl; [auto|].
  destruct (pev_names l t p) as [P1 P2]. rewrite !flat_map_app, P2, I2. split; [|reflexivity].
  eapply perm_trans; [apply Permutation_app; [exact P1 | exact I1]|].
  rewrite <- !app_assoc. apply Permutation_app_head. rewrite !app_assoc. apply Permutation_app_tail. apply Permutation_app_comm.
Qed.

Definition rs_names (s : rstate) : Prop :=
  Permutation (rs_fail s ++ rs_us s) (flat_map fnames (rs_ev s)) /\ rs_err s = flat_map enames (rs_ev s).

Lemma run_test_names l t b s : rs_names s -> rs_names (run_test w o l t b s).
Proof.
  intros [H1 H2]. unfold rs_names.
  destruct (run_test_effect w o l t b s) as [_ [F2 [F3 [_ [F5 [_ F7]]]]]]. rewrite F2, F3, F5, F7, !flat_map_app.
  destruct (block_names l t (proto b)) as [B1 B2]. rewrite B2, H2. split; [|reflexivity].
  eapply perm_trans; [|apply Permutation_app; [exact H1 | apply Permutation_sym; exact B1]].
  rewrite <- !app_assoc. apply Permutation_app_head. rewrite !app_assoc. apply Permutation_app_tail. apply Permutation_app_comm.
Qed.
Lemma run_seq_names l : forall ts s, rs_names s -> rs_names (run_seq w o l ts s).
Proof.
  induction ts as [|[t b] ts IH]; intros s H; simpl; [exact H|]. destruct (rs_stop s); [exact H|]. apply IH. apply run_test_names. exact H.
Qed.

(* ---------------- process state: what an operation appends ---------------- *)
Definition delta (p q : pstate) : Prop :=
  exists ext fe ee, ps_ev q = ps_ev p ++ ext /\ ps_fail q = ps_fail p ++ fe /\ ps_err q = ps_err p ++ ee /\
                    Permutation fe (flat_map fnames ext) /\ filter nonsetup ee = flat_map enames ext.

Lemma delta_refl p : delta p p.
Proof. exists [], [], []. rewrite !app_nil_r. repeat split; auto. Qed.
Lemma delta_trans p q r : delta p q -> delta q r -> delta p r.
Proof.
  intros [x1 [f1 [e1 [A1 [A2 [A3 [A4 A5]]]]]]] [x2 [f2 [e2 [B1 [B2 [B3 [B4 B5]]]]]]].
  exists (x1 ++ x2), (f1 ++ f2), (e1 ++ e2). rewrite B1, B2, B3, A1, A2, A3, <- !app_assoc, !flat_map_app, filter_app, A5, B5.
  repeat split; auto. apply Permutation_app; assumption.
Qed.
(* a state that differs only in fields the ledger does not look at *)
Lemma delta_same p q : ps_ev q = ps_ev p -> ps_fail q = ps_fail p -> ps_err q = ps_err p -> delta p q.
Proof. intros E1 E2 E3. exists [], [], []. rewrite !app_nil_r. repeat split; auto. Qed.

Lemma setup_layer_delta : forall fuel l p, delta p (fst (setup_layer w fuel l p)).
Proof.
  induction fuel as [|f IH]; intros l p; [apply delta_refl|]. cbn [setup_layer].
  destruct (mem l (ps_setup p)); [apply delta_refl|].
  set (F := fun (acc : pstate * bool) b => let '(q, x) := acc in if x then (q, x) else setup_layer w f b q).
  assert (Hfold : forall bs q x, delta q (fst (fold_left F bs (q, x)))).
  { induction bs as [|b bs IHb]; intros q x; simpl; [apply delta_refl|].
    destruct x; [apply IHb|]. specialize (IH b q). destruct (setup_layer w f b q) as [q1 x1]. simpl in IH.
    eapply delta_trans; [exact IH | apply IHb]. }
  specialize (Hfold (bases_of (lw w) l) p false).
  destruct (fold_left F (bases_of (lw w) l) (p, false)) as [p1 exc]. simpl in Hfold.
  destruct exc; [exact Hfold|]. cbn [fst]. eapply delta_trans; [exact Hfold|].
  exists [ESetUp l (match l_setup (spec_of w l) with None => HOk | Some sc => script_at sc (cnt l (ps_att_su p1)) end)], [], [].
  cbn [ps_ev ps_fail ps_err]. rewrite !app_nil_r. repeat split; auto.
Qed.

Lemma td_loop_delta_names : forall order optional p,
  let q := fst (td_loop w order optional p) in delta p q /\ ps_fail q = ps_fail p.
Proof.
  induction order as [|l order IH]; intros optional p; simpl; [split; [apply delta_refl | reflexivity]|].
  set (out := match l_teardown (spec_of w l) with None => HOk | Some sc => script_at sc (cnt l (ps_att_td p)) end).
  set (p1 := {| ps_setup := filter (fun x => negb (Nat.eqb x l)) (ps_setup p); ps_att_su := ps_att_su p;
                ps_att_td := inc l (ps_att_td p); ps_ran := ps_ran p; ps_fail := ps_fail p;
                ps_err := match out with HRaise => ps_err p ++ [NLayerTearDown l] | _ => ps_err p end;
                ps_skip := ps_skip p; ps_ev := ps_ev p ++ [ETearDown l out] |}).
  assert (H1 : delta p p1 /\ ps_fail p1 = ps_fail p).
  { split; [|reflexivity]. exists [ETearDown l out], [], (match out with HRaise => [NLayerTearDown l] | _ => [] end).
    unfold p1. cbn [ps_ev ps_fail ps_err]. rewrite app_nil_r. destruct out; simpl; rewrite ?app_nil_r; repeat split; auto. }
  destruct H1 as [D1 F1].
  assert (Hrec : forall opt, let q := fst (td_loop w order opt p1) in delta p q /\ ps_fail q = ps_fail p).
  { intros opt. destruct (IH opt p1) as [D2 F2]. split; [eapply delta_trans; eauto | congruence]. }
  destruct out; [apply Hrec | apply Hrec |]. destruct optional; [apply Hrec|].
  cbn [fst]. split; [|exact F1]. eapply delta_trans; [exact D1|].
  exists [ECannot l], [], []. unfold pemit. cbn [ps_ev ps_fail ps_err]. rewrite !app_nil_r. repeat split; auto.
Qed.

Lemma repeat_loop_delta : forall n l p, delta p (repeat_loop w o n l p).
Proof.
  induction n as [|n IH]; intros l p; simpl; [apply delta_refl|].
  set (rs := run_seq w o l (tests_of w l) rs_init).
  assert (Hrs : rs_names rs) by (apply run_seq_names; split; [apply Permutation_refl | reflexivity]).
  destruct Hrs as [R1 R2].
  set (p1 := {| ps_setup := ps_setup p; ps_att_su := ps_att_su p; ps_att_td := ps_att_td p; ps_ran := rs_run rs;
                ps_fail := ps_fail p ++ rs_fail rs ++ rs_us rs; ps_err := ps_err p ++ rs_err rs; ps_skip := ps_skip p + rs_skip rs;
                ps_ev := ps_ev p ++ rs_ev rs ++ [ESummary l (rs_run rs) (length (rs_fail rs) + length (rs_us rs))
                                                          (length (rs_err rs) + o_import_errors o) (rs_skip rs)] |}).
  assert (H1 : delta p p1).
  { exists (rs_ev rs ++ [ESummary l (rs_run rs) (length (rs_fail rs) + length (rs_us rs)) (length (rs_err rs) + o_import_errors o) (rs_skip rs)]),
           (rs_fail rs ++ rs_us rs), (rs_err rs).
    unfold p1. cbn [ps_ev ps_fail ps_err]. rewrite !flat_map_app. simpl. rewrite !app_nil_r. repeat split; auto.
    rewrite R2. clear. induction (rs_ev rs) as [|e r IH]; simpl; [reflexivity|]. rewrite filter_app, IH. f_equal.
    destruct e as [| | | | | |t r0 k| | |]; try reflexivity; [destruct o0; reflexivity | destruct r0; reflexivity]. }
  destruct (rs_stop rs); [exact H1 | eapply delta_trans; [exact H1 | apply IH]].
Qed.

Lemma run_layer_delta l p : delta p (fst (run_layer w o l p)).
Proof.
  unfold run_layer, tear_down_unneeded.
  destruct (td_loop_delta_names (rev (order_by_bases (lw w) (filter (fun x => negb (mem x (gather_layers (lw w) l))) (ps_setup p)))) false p) as [Ht _].
  destruct (td_loop w _ false p) as [p1 cannot]. simpl in Ht. destruct cannot; [exact Ht|].
  pose proof (setup_layer_delta (S (nlayers (lw w))) l p1) as Hs.
  destruct (setup_layer w (S (nlayers (lw w))) l p1) as [p2 exc]. simpl in Hs.
  destruct exc; cbn [fst].
  - eapply delta_trans; [exact Ht|]. eapply delta_trans; [exact Hs|].
    exists [], [], [NLayerSetUp l]. cbn [ps_ev ps_fail ps_err]. rewrite !app_nil_r. repeat split; auto.
  - eapply delta_trans; [exact Ht|]. eapply delta_trans; [exact Hs|].
    eapply delta_trans; [|apply repeat_loop_delta]. apply delta_same; reflexivity.
Qed.

Lemma parent_loop_delta : forall ls p ran n, delta p (fst (fst (fst (fst (parent_loop w o ls p ran n))))).
Proof.
  induction ls as [|l ls IH]; intros p ran n; simpl; [apply delta_refl|].
  pose proof (run_layer_delta l p) as Hl. destruct (run_layer w o l p) as [p1 cannot]. simpl in Hl.
  destruct cannot; [exact Hl|].
  destruct (o_x o && match ps_fail p1, ps_err p1 with [], [] => false | _, _ => true end); [exact Hl|].
  eapply delta_trans; [exact Hl | apply IH].
Qed.

Definition child_ok (c : report) : Prop :=
  Permutation (c_fail c) (flat_map fnames (c_ev c)) /\ filter nonsetup (c_err c) = flat_map enames (c_ev c).

Lemma child_names l : child_ok (child_run w o l).
Proof.
  unfold child_run. pose proof (run_layer_delta l ps_init) as H1. destruct (run_layer w o l ps_init) as [p1 c1]. simpl in H1.
  unfold tear_down_unneeded.
  destruct (td_loop_delta_names (rev (order_by_bases (lw w) (filter (fun x => negb (mem x [])) (ps_setup p1)))) true p1) as [H2 _].
  destruct (td_loop w _ true p1) as [p2 c2]. simpl in H2.
  destruct (delta_trans _ _ _ H1 H2) as [ext [fe [ee [A1 [A2 [A3 [A4 A5]]]]]]]. simpl in A1, A2, A3.
  unfold child_ok. cbn [c_fail c_err c_ev]. rewrite A1, A2, A3. auto.
Qed.

Definition all_fnames (r : result) : list name :=
  flat_map fnames (r_parent r) ++ flat_map (fun c => flat_map fnames (c_ev c)) (r_children r).
Definition all_enames (r : result) : list name :=
  flat_map enames (r_parent r) ++ flat_map (fun c => flat_map enames (c_ev c)) (r_children r).

Lemma resume_seq_names : forall ls ran f e,
  let '(cs, _, f', e') := resume_seq w o ls ran f e in
  f' = f ++ flat_map c_fail cs /\ e' = e ++ flat_map c_err cs /\ forall c, In c cs -> child_ok c.
Proof.
  induction ls as [|l ls IH]; intros ran f e; simpl; [rewrite !app_nil_r; split; [reflexivity|]; split; [reflexivity|]; intros c0 []|].
  destruct (o_x o && match f, e with [], [] => false | _, _ => true end); [rewrite !app_nil_r; split; [reflexivity|]; split; [reflexivity|]; intros c0 []|].
  specialize (IH (ran + c_ran (child_run w o l)) (f ++ c_fail (child_run w o l)) (e ++ c_err (child_run w o l))).
  destruct (resume_seq w o ls _ _ _) as [[[cs r'] f'] e']. destruct IH as [I1 [I2 I3]]. simpl.
  rewrite I1, I2, <- !app_assoc. split; [reflexivity|]. split; [reflexivity|]. intros c0 [<-|Hc]; [apply child_names | apply I3; exact Hc].
Qed.

Theorem run_names :
  let r := run w o in
  Permutation (r_fail r) (all_fnames r) /\ Permutation (filter nonsetup (r_err r)) (all_enames r).
Proof.
  unfold run, all_fnames, all_enames.
  set (A := if 1 <? o_procs o then _ else _).
  assert (HA : delta ps_init (fst (fst (fst (fst A))))).
  { unfold A. destruct (1 <? o_procs o).
    - simpl. exists (repeat (ESummary (nlayers (lw w)) 0 0 (o_import_errors o) 0) (reps o)), [], []. unfold pemit. simpl.
      repeat split; auto; induction (reps o) as [|k IHk]; simpl; auto.
    - apply parent_loop_delta. }
  destruct A as [[[[p1 ran1] rest] resume] n1]. simpl in HA.
  destruct HA as [ext1 [fe1 [ee1 [A1 [A2 [A3 [A4 A5]]]]]]]. simpl in A1, A2, A3.
  set (B := if resume then _ else _).
  assert (HB : let '(cs, _, f2, e2) := B in
            f2 = ps_fail p1 ++ flat_map c_fail cs /\ e2 = ps_err p1 ++ flat_map c_err cs /\ forall c, In c cs -> child_ok c).
  { unfold B. destruct resume; [apply resume_seq_names | simpl; rewrite !app_nil_r; split; [reflexivity|]; split; [reflexivity|]; intros c0 []]. }
  destruct B as [[[cs ran2] f2] e2]. destruct HB as [-> [-> Hcs]].
  set (p2 := {| ps_setup := ps_setup p1; ps_att_su := ps_att_su p1; ps_att_td := ps_att_td p1; ps_ran := 0;
                ps_fail := []; ps_err := []; ps_skip := ps_skip p1; ps_ev := ps_ev p1 |}).
  unfold tear_down_unneeded.
  destruct (td_loop_delta_names (rev (order_by_bases (lw w) (filter (fun x => negb (mem x [])) (ps_setup p2)))) true p2) as [Hd Hf].
  destruct (td_loop w _ true p2) as [p3 c3]. simpl in Hd, Hf.
  destruct Hd as [ext3 [fe3 [ee3 [C1 [C2 [C3 [C4 C5]]]]]]]. simpl in C1, C2, C3.
  assert (Hfe3 : flat_map fnames ext3 = []).
  { rewrite Hf in C2. destruct fe3; [|discriminate]. apply Permutation_nil. exact C4. }
  cbn [r_fail r_err r_parent r_children]. rewrite C1, A1, A2, A3, C3. cbn [app].
  assert (Hchildren_f : Permutation (flat_map c_fail cs) (flat_map (fun c => flat_map fnames (c_ev c)) cs)).
  { clear - Hcs. induction cs as [|c cs IH]; simpl; [constructor|].
    apply Permutation_app; [apply (Hcs c (or_introl eq_refl)) | apply IH; intros c' Hc'; apply Hcs; now right]. }
  assert (Hchildren_e : filter nonsetup (flat_map c_err cs) = flat_map (fun c => flat_map enames (c_ev c)) cs).
  { clear - Hcs. induction cs as [|c cs IH]; simpl; [reflexivity|]. rewrite filter_app.
    destruct (Hcs c (or_introl eq_refl)) as [_ E]. rewrite E, IH; [reflexivity | intros c' Hc'; apply Hcs; now right]. }
  split.
  - rewrite !flat_map_app, Hfe3, app_nil_r. apply Permutation_app; [exact A4 | exact Hchildren_f].
  - rewrite !filter_app, A5, C5, Hchildren_e, !flat_map_app. rewrite <- !app_assoc. apply Permutation_app_head. apply Permutation_app_comm.
Qed.
End N.
