(* ObsC02.v — C02 at observation level: the verdict predicate Obs.c02_ok holds of the model's observation of every
   run, and hence of the implementation's observation whenever the correspondence check finds no difference. *)
From ZT Require Import Base Layers LayersFacts Run RunFacts RunLedger RunBracket RunBlocks Chk_World Obs WorldHyps ObsC01 ModelCase.

Section C.
Variable w0 : rworld.

Definition tbad (t : nat) : bool := match nth_error (tests w0) t with Some b => test_bad b | None => false end.

Lemma observed_app' a b : observed w0 (a ++ b) = observed w0 a ++ observed w0 b.
Proof. unfold observed. apply flat_map_app. Qed.
Lemma started_app a b : started (a ++ b) = started a ++ started b.
Proof. unfold started. apply flat_map_app. Qed.

Lemma hooks_up_obs l : started (observed w0 (hooks_up w0 l)) = [] /\ existsb bad_layer_event (observed w0 (hooks_up w0 l)) = false /\
                       (forall e, In e (hooks_up w0 l) -> bad_ev e = false).
Proof.
  unfold hooks_up. induction (filter _ _) as [|x r [I1 [I2 I3]]]; simpl; [repeat split; auto; intros e []|].
  repeat split; auto. intros e [<-|He]; [reflexivity | auto].
Qed.
Lemma hooks_down_obs l : started (observed w0 (hooks_down w0 l)) = [] /\ existsb bad_layer_event (observed w0 (hooks_down w0 l)) = false /\
                         (forall e, In e (hooks_down w0 l) -> bad_ev e = false).
Proof.
  unfold hooks_down. induction (filter _ _) as [|x r [I1 [I2 I3]]]; simpl; [repeat split; auto; intros e []|].
  repeat split; auto. intros e [<-|He]; [reflexivity | auto].
Qed.

(* one protocol event of test t *)
Lemma pev_obs l t p :
  existsb bad_layer_event (observed w0 (p_ev w0 l t p)) = false /\
  ((exists e, In e (p_ev w0 l t p) /\ bad_ev e = true) <-> is_bad_res p = true) /\
  (forall x, In x (started (observed w0 (p_ev w0 l t p))) -> x = t) /\
  (match p with PPhase 0 _ => In t (started (observed w0 (p_ev w0 l t p))) | _ => True end).
Proof.
  destruct (hooks_up_obs l) as [U1 [U2 U3]]. destruct (hooks_down_obs l) as [D1 [D2 D3]].
  destruct p as [| |ph k|r k|]; simpl.
  - rewrite observed_app', existsb_app, started_app, U1, U2. simpl. repeat split; auto; try (intros x []).
    + intros [e [He Hb]]. apply in_app_or in He. destruct He as [He|[<-|[]]]; [rewrite U3 in Hb by exact He; discriminate | discriminate].
    + discriminate.
  - rewrite observed_app', existsb_app, started_app, U1, U2. simpl. repeat split; auto; try (intros x []).
    + intros [e [He Hb]]. apply in_app_or in He. destruct He as [He|[<-|[<-|[]]]]; [rewrite U3 in Hb by exact He; discriminate | discriminate | discriminate].
    + discriminate.
  - repeat split; auto.
    + intros [e [[<-|[]] Hb]]. discriminate.
    + discriminate.
    + destruct ph; simpl; [intros x [<-|[]]; reflexivity | intros x []].
    + destruct ph; simpl; auto.
  - repeat split; auto; try (intros x []).
    + intros [e [[<-|[]] Hb]]. destruct r; simpl in *; try discriminate; reflexivity.
    + intros Hb. exists (EResult t r k). split; [now left|]. destruct r; simpl in *; try discriminate; reflexivity.
  - rewrite observed_app', existsb_app, started_app, D1, D2. simpl. repeat split; auto; try (intros x []).
    + intros [e [He Hb]]. apply in_app_or in He. destruct He as [He|[<-|[]]]; [rewrite D3 in Hb by exact He; discriminate | discriminate].
    + discriminate.
Qed.

Lemma block_obs l t : forall ps,
  existsb bad_layer_event (observed w0 (flat_map (p_ev w0 l t) ps)) = false /\
  ((exists e, In e (flat_map (p_ev w0 l t) ps) /\ bad_ev e = true) <-> existsb is_bad_res ps = true) /\
  (forall x, In x (started (observed w0 (flat_map (p_ev w0 l t) ps))) -> x = t) /\
  ((exists k, In (PPhase 0 k) ps) -> In t (started (observed w0 (flat_map (p_ev w0 l t) ps)))).
Proof.
  induction ps as [|p ps [I1 [I2 [I3 I4]]]]; simpl.
  - repeat split; auto; [intros [e [[] _]] | discriminate | intros x [] | intros [k []]].
  - destruct (pev_obs l t p) as [P1 [P2 [P3 P4]]].
    rewrite observed_app', existsb_app, started_app, P1, I1. split; [reflexivity|]. split; [|split].
    + rewrite orb_true_iff, <- P2, <- I2. split.
      * intros [e [He Hb]]. apply in_app_or in He. destruct He as [He|He]; [left | right]; exists e; auto.
      * intros [[e [He Hb]]|[e [He Hb]]]; exists e; split; auto; apply in_or_app; auto.
    + intros x Hx. apply in_app_or in Hx. destruct Hx as [Hx|Hx]; auto.
    + intros [k [->|Hk]]; apply in_or_app; [left; exact P4 | right; apply I4; exists k; exact Hk].
Qed.

(* a trace of layer events and test blocks: bad ghost events are exactly the observable bad outcomes *)
Lemma wbp_bad : forall tr, wbp w0 tr ->
  ((exists e, In e tr /\ bad_ev e = true) <->
   (existsb tbad (started (observed w0 tr)) = true \/ existsb bad_layer_event (observed w0 tr) = true)).
Proof.
  induction 1 as [|e r [He Hhook] Hr IH|l t b r Hn Hl Hr IH].
  - simpl. split; [intros [e [[] _]] | intros [H|H]; discriminate].
  - change (observed w0 (e :: r)) with (observe w0 e ++ observed w0 r). rewrite started_app, !existsb_app, !orb_true_iff.
    assert (Hst : started (observe w0 e) = []).
    { destruct e; simpl in He; try discriminate; simpl; [destruct (l_setup _) | destruct (l_teardown _) | |]; reflexivity. }
    assert (Hb : bad_ev e = existsb bad_layer_event (observe w0 e)).
    { destruct e as [l out|l out| | | | | | |l a b c d|l]; simpl in He; try discriminate; simpl.
      - destruct (l_setup (spec_of w0 l)) eqn:E; [destruct out; reflexivity | rewrite (Hhook eq_refl); reflexivity].
      - destruct (l_teardown (spec_of w0 l)) eqn:E; [destruct out; reflexivity | rewrite (Hhook eq_refl); reflexivity].
      - reflexivity.
      - reflexivity. }
    rewrite Hst. cbn [existsb]. split.
    + intros [e' [[<-|He'] Hb']]; [right; left; congruence|].
      destruct (proj1 IH (ex_intro _ e' (conj He' Hb'))) as [H|H]; [left; right; exact H | right; right; exact H].
    + intros [[H|H]|[H|H]].
      * discriminate.
      * destruct (proj2 IH (or_introl H)) as [e' [He' Hb']]. exists e'. split; [now right | exact Hb'].
      * exists e. split; [now left | congruence].
      * destruct (proj2 IH (or_intror H)) as [e' [He' Hb']]. exists e'. split; [now right | exact Hb'].
  - destruct (block_obs l t (proto b)) as [B1 [B2 [B3 B4]]].
    rewrite observed_app', started_app, !existsb_app, !orb_true_iff, B1.
    assert (Hblk : existsb tbad (started (observed w0 (flat_map (p_ev w0 l t) (proto b)))) = test_bad b).
    { unfold test_bad. destruct (existsb is_bad_res (proto b)) eqn:Eb.
      - (* a bad result: the test is not decorator-skipped, so it has a setUp phase and is observed as started *)
        apply existsb_exists. exists t. split; [|unfold tbad; rewrite Hn; exact Eb].
        apply B4. destruct (proto_shape b) as [[_ E]|[_ [mid [E _]]]]; rewrite E in *; [simpl in Eb; discriminate|].
        exists 0. right. now left.
      - apply Bool.not_true_iff_false. intros Hex. apply existsb_exists in Hex. destruct Hex as [x [Hx Hbx]].
        apply B3 in Hx. subst x. unfold tbad in Hbx. rewrite Hn in Hbx. unfold test_bad in Hbx. congruence. }
    rewrite Hblk. split.
    + intros [e [He Hb]]. apply in_app_or in He. destruct He as [He|He].
      * left. left. unfold test_bad. apply B2. exists e. auto.
      * destruct (proj1 IH (ex_intro _ e (conj He Hb))) as [H|H]; [left; right; exact H | right; right; exact H].
    + intros [[H|H]|[H|H]].
      * unfold test_bad in H. apply B2 in H. destruct H as [e [He Hb]]. exists e. split; [apply in_or_app; now left | exact Hb].
      * destruct (proj2 IH (or_introl H)) as [e [He Hb]]. exists e. split; [apply in_or_app; now right | exact Hb].
      * discriminate.
      * destruct (proj2 IH (or_intror H)) as [e [He Hb]]. exists e. split; [apply in_or_app; now right | exact Hb].
Qed.
End C.

Theorem c02_ok_model w0 o0 inj :
  wf (lw w0) -> (forall t, In t (tests w0) -> t_layer t < nlayers (lw w0)) ->
  c02_ok (model_case w0 o0 inj) false = true.
Proof.
  intros Hwf Ht. unfold c02_ok. cbn [i_aborted i_failed model_case]. simpl negb. cbn [andb].
  apply Bool.eqb_true_iff. destruct (run_wbp w0 o0) as [Wp Wc].
  pose proof (run_failed_iff_bad_event w0 o0 Hwf Ht) as Hv.
  unfold anything_bad. rewrite orb_false_r.
  set (r := run w0 o0) in *.
  assert (Hprocs : all_procs (model_case w0 o0 inj) = observed w0 (r_parent r) :: map (fun c => observed w0 (c_ev c)) (r_children r)).
  { unfold all_procs, model_case. cbn [i_parent i_children]. fold r. rewrite map_map. reflexivity. }
  rewrite Hprocs.
  change (o (model_case w0 o0 inj)) with o0.
  change (bad_test (model_case w0 o0 inj)) with (tbad w0).
  (* both sides as propositions *)
  destruct (r_failed r) eqn:Ef.
  - symmetry. apply proj1 in Hv. specialize (Hv eq_refl).
    destruct Hv as [Hi|[[e [He Hb]]|[c [e [Hc [He Hb]]]]]].
    + apply Nat.ltb_lt in Hi. rewrite Hi. now rewrite orb_true_r.
    + destruct (proj1 (wbp_bad w0 _ Wp) (ex_intro _ e (conj He Hb))) as [H|H].
      * cbn [flat_map]. rewrite existsb_app, H. reflexivity.
      * cbn [existsb]. rewrite H. now rewrite !orb_true_r.
    + destruct (proj1 (wbp_bad w0 _ (Wc c Hc)) (ex_intro _ e (conj He Hb))) as [H|H].
      * assert (Hex : existsb (tbad w0) (flat_map started (observed w0 (r_parent r) :: map (fun c0 => observed w0 (c_ev c0)) (r_children r))) = true).
        { apply existsb_exists. apply existsb_exists in H. destruct H as [t [Ht' Hbt']]. exists t. split; [|exact Hbt'].
          apply in_flat_map. exists (observed w0 (c_ev c)). split; [right; apply in_map_iff; exists c; auto | exact Ht']. }
        rewrite Hex. reflexivity.
      * assert (Hex : existsb (fun evs => existsb bad_layer_event evs) (observed w0 (r_parent r) :: map (fun c0 => observed w0 (c_ev c0)) (r_children r)) = true).
        { apply existsb_exists. exists (observed w0 (c_ev c)). split; [right; apply in_map_iff; exists c; auto | exact H]. }
        rewrite Hex. now rewrite !orb_true_r.
  - symmetry. apply Bool.not_true_iff_false. intros Hbad. apply proj2 in Hv.
    assert (Hfalse : false = true); [apply Hv | discriminate].
    apply orb_prop in Hbad. destruct Hbad as [Hbad|Hbad]; [apply orb_prop in Hbad; destruct Hbad as [Hbad|Hbad]|].
    + right. apply existsb_exists in Hbad. destruct Hbad as [t [Hin Hb]]. apply in_flat_map in Hin. destruct Hin as [evs [[<-|Hevs] Ht']].
      * left. apply (wbp_bad w0 _ Wp). left. apply existsb_exists. exists t. auto.
      * apply in_map_iff in Hevs. destruct Hevs as [c [<- Hc]]. right.
        destruct (proj2 (wbp_bad w0 _ (Wc c Hc)) (or_introl (proj2 (existsb_exists _ _) (ex_intro _ t (conj Ht' Hb))))) as [e [He Hbe]].
        exists c, e. auto.
    + left. apply Nat.ltb_lt. exact Hbad.
    + right. apply existsb_exists in Hbad. destruct Hbad as [evs [[<-|Hevs] Hb]].
      * left. apply (wbp_bad w0 _ Wp). now right.
      * apply in_map_iff in Hevs. destruct Hevs as [c [<- Hc]]. right.
        destruct (proj2 (wbp_bad w0 _ (Wc c Hc)) (or_intror Hb)) as [e [He Hbe]]. exists c, e. auto.
Qed.

(* soundness of the check for C02 (sequential runs) *)
Theorem c02_check_sound c : agree c = true -> wf_case c = true -> Nat.ltb 1 (o_procs (o c)) = false ->
  c02_ok c false = true.
Proof.
  intros Ha Hw Hp. destruct (wf_case_hyps c Hw) as [Hwf Ht].
  rewrite (agree_is_model c Ha Hp). apply c02_ok_model; assumption.
Qed.
