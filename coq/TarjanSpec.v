(* TarjanSpec.v — the executable statement c20_ok (Digraph.v; evaluated on the implementation's output by the
   correspondence check) is equivalent to the relational specification of Tarjan.sccs_correct: the fuelled
   closure computes reachability, class_of computes the mutual-reachability class, cyclic decides "on a cycle". *)
From ZT Require Import Base LayersFacts Digraph TarjanBase Tarjan TarjanGraph.

Section S.
Variable g : graph.
Hypothesis Gnodup : NoDup (nodes g).
Hypothesis Gadj : forall x y, In y (adj g x) -> In y (nodes g).

Notation R := (Tarjan.reach g).

(* one round of the closure *)
Definition round (seen : list nat) : list nat := fold_left (fun acc x => add_set (adj g x) acc) seen seen.

Lemma fold_adj_in : forall l acc y,
  In y (fold_left (fun acc x => add_set (adj g x) acc) l acc) <-> In y acc \/ exists x, In x l /\ In y (adj g x).
Proof.
  induction l as [|z l IH]; intros acc y; simpl.
  - split; [auto | intros [H|[x [[] _]]]; exact H].
  - rewrite IH, add_set_in. split.
    + intros [[H|H]|[x [Hx Hy]]]; [right; exists z; auto | now left | right; exists x; auto].
    + intros [H|[x [[<-|Hx] Hy]]]; [left; now right | left; now left | right; exists x; auto].
Qed.
Lemma fold_adj_nodup : forall l acc, NoDup acc -> NoDup (fold_left (fun acc x => add_set (adj g x) acc) l acc).
Proof. induction l as [|z l IH]; intros acc H; simpl; [exact H|]. apply IH. apply add_set_nodup. exact H. Qed.

Lemma round_in seen y : In y (round seen) <-> In y seen \/ exists x, In x seen /\ In y (adj g x).
Proof. apply fold_adj_in. Qed.
Lemma round_nodup seen : NoDup seen -> NoDup (round seen).
Proof. apply fold_adj_nodup. Qed.

Lemma closure_S k seen : closure g (S k) seen = closure g k (round seen).
Proof. reflexivity. Qed.

(* soundness: everything in the closure is reachable from a seed *)
Lemma closure_sound : forall k seen y, In y (closure g k seen) -> exists x, In x seen /\ R x y.
Proof.
  induction k as [|k IH]; intros seen y H; simpl in H; [exists y; split; [exact H | constructor]|].
  apply IH in H. destruct H as [x [Hx Hr]]. apply round_in in Hx. destruct Hx as [Hx|[x0 [Hx0 He]]].
  - exists x. auto.
  - exists x0. split; [exact Hx0|]. eapply r_step; [exact He | exact Hr].
Qed.

Lemma closure_mono : forall k seen y, In y seen -> In y (closure g k seen).
Proof. induction k as [|k IH]; intros seen y H; simpl; [exact H|]. apply IH. apply round_in. now left. Qed.
Lemma closure_nodup : forall k seen, NoDup seen -> NoDup (closure g k seen).
Proof. induction k as [|k IH]; intros seen H; simpl; [exact H|]. apply IH. apply round_nodup. exact H. Qed.
Lemma closure_in_nodes : forall k seen, (forall y, In y seen -> In y (nodes g)) -> forall y, In y (closure g k seen) -> In y (nodes g).
Proof.
  induction k as [|k IH]; intros seen H y Hy; simpl in Hy; [auto|]. apply (IH (round seen)); [|exact Hy].
  intros z Hz. apply round_in in Hz. destruct Hz as [Hz|[x [_ He]]]; [auto | eapply Gadj; eauto].
Qed.

Definition closedb (seen : list nat) : bool := forallb (fun z => mem z seen) (round seen).
Lemma closedb_spec seen : closedb seen = true -> forall x y, In x seen -> In y (adj g x) -> In y seen.
Proof.
  unfold closedb. rewrite forallb_forall. intros H x y Hx Hy. apply mem_In. apply H. apply round_in. right. exists x. auto.
Qed.
Lemma closed_stays : forall k seen, closedb seen = true -> forall y, In y (closure g k seen) -> In y seen.
Proof.
  induction k as [|k IH]; intros seen Hc y Hy; simpl in Hy; [exact Hy|].
  assert (Hr : forall z, In z (round seen) <-> In z seen).
  { intros z. split; [|intros Hz; apply round_in; now left]. intros Hz. unfold closedb in Hc. rewrite forallb_forall in Hc. apply mem_In. apply Hc. exact Hz. }
  assert (Hc' : closedb (round seen) = true).
  { unfold closedb. rewrite forallb_forall. intros z Hz. apply mem_In. apply round_in in Hz. destruct Hz as [Hz|[x [Hx He]]]; [exact Hz|].
    apply Hr. apply Hr in Hx. apply (closedb_spec seen Hc x z Hx He). }
  apply Hr. apply (IH (round seen) Hc'). exact Hy.
Qed.

(* either the closure has become closed, or it has grown by one element per round *)
Lemma closure_progress : forall k seen, NoDup seen ->
  (forall x y, In x (closure g k seen) -> In y (adj g x) -> In y (closure g k seen)) \/ length seen + k <= length (closure g k seen).
Proof.
  induction k as [|k IH]; intros seen Hnd; [right; simpl; lia|]. rewrite closure_S.
  destruct (closedb seen) eqn:Ec.
  - left. intros x y Hx Hy.
    assert (Hx' : In x seen) by (apply (closed_stays (S k) seen Ec); exact Hx).
    apply closure_mono with (k := S k). apply (closedb_spec seen Ec x y Hx' Hy).
  - assert (Hgrow : S (length seen) <= length (round seen)).
    { unfold closedb in Ec. apply Bool.not_true_iff_false in Ec. rewrite forallb_forall in Ec.
      assert (Hex : exists z, In z (round seen) /\ ~ In z seen).
      { destruct (existsb (fun z => negb (mem z seen)) (round seen)) eqn:Ex.
        - apply existsb_exists in Ex. destruct Ex as [z [Hz Hm]]. exists z. split; [exact Hz|]. apply negb_true_iff in Hm. apply mem_false. exact Hm.
        - exfalso. apply Ec. intros z Hz. destruct (mem z seen) eqn:Em; [reflexivity|]. exfalso.
          assert (existsb (fun z => negb (mem z seen)) (round seen) = true) by (apply existsb_exists; exists z; split; [exact Hz | now rewrite Em]). congruence. }
      destruct Hex as [z [Hz Hnz]].
      change (S (length seen)) with (length (z :: seen)). apply NoDup_incl_length; [constructor; assumption|].
      intros y [<-|Hy]; [exact Hz | apply round_in; now left]. }
    destruct (IH (round seen) (round_nodup seen Hnd)) as [Hcl|Hlen]; [now left | right; lia].
Qed.

Theorem reach_spec x y : In x (nodes g) -> (mem y (Digraph.reach g x) = true <-> R x y).
Proof.
  intros Hx. unfold Digraph.reach. rewrite mem_In. split.
  - intros H. apply closure_sound in H. destruct H as [x0 [[<-|[]] Hr]]. exact Hr.
  - intros Hr.
    assert (Hnd : NoDup [x]) by (constructor; [intros [] | constructor]).
    assert (Hin : forall z, In z (closure g (length (nodes g)) [x]) -> In z (nodes g)).
    { apply closure_in_nodes. intros z [<-|[]]. exact Hx. }
    destruct (closure_progress (length (nodes g)) [x] Hnd) as [Hcl|Hlen].
    + apply (closed_reach g (fun z => In z (closure g (length (nodes g)) [x]))) with (x := x); [exact Hcl | exact Hr|].
      apply closure_mono. now left.
    + exfalso. simpl in Hlen.
      assert (length (closure g (length (nodes g)) [x]) <= length (nodes g)).
      { apply NoDup_incl_length; [apply closure_nodup; exact Hnd | exact Hin]. }
      lia.
Qed.

Lemma reach_nodes x y : In x (nodes g) -> R x y -> In y (nodes g).
Proof. intros Hx H. induction H as [|x y z He _ IH]; [exact Hx|]. apply IH. eapply Gadj; eauto. Qed.

Lemma mutual_spec x y : In x (nodes g) -> In y (nodes g) -> (mutual g x y = true <-> (R x y /\ R y x)).
Proof. intros Hx Hy. unfold mutual. rewrite andb_true_iff, (reach_spec x y Hx), (reach_spec y x Hy). tauto. Qed.

Lemma class_of_spec x y : In x (nodes g) -> (In y (class_of g x) <-> (In y (nodes g) /\ R x y /\ R y x)).
Proof.
  intros Hx. unfold class_of. rewrite filter_In. split.
  - intros [Hy Hm]. split; [exact Hy|]. apply mutual_spec; assumption.
  - intros [Hy Hm]. split; [exact Hy|]. apply mutual_spec; assumption.
Qed.

Lemma nodup_two (l : list nat) a b : NoDup l -> In a l -> In b l -> a <> b -> 2 <= length l.
Proof.
  intros Hnd Ha Hb Hne. change 2 with (length [a; b]). apply NoDup_incl_length.
  - constructor; [intros [H|[]]; congruence | constructor; [intros [] | constructor]].
  - intros z [<-|[<-|[]]]; assumption.
Qed.

Lemma cyclic_spec x : In x (nodes g) -> (cyclic g x = true <-> cyc g x).
Proof.
  intros Hx. unfold cyclic, cyc. rewrite orb_true_iff, Nat.ltb_lt, mem_In.
  assert (Hndc : NoDup (class_of g x)) by (unfold class_of; apply NoDup_filter; exact Gnodup).
  assert (Hxc : In x (class_of g x)) by (apply class_of_spec; [exact Hx | repeat split; [exact Hx | constructor | constructor]]).
  split.
  - intros [Hlen|He]; [right | now left].
    destruct (class_of g x) as [|a [|b l]] eqn:Ec; simpl in Hlen; try lia.
    assert (Ha : In a (class_of g x)) by (rewrite Ec; now left).
    assert (Hb : In b (class_of g x)) by (rewrite Ec; right; now left).
    assert (Hab : a <> b) by (inversion Hndc as [|? ? Hn _]; subst; intros ->; apply Hn; now left).
    destruct (Nat.eq_dec a x) as [->|Hne].
    + exists b. split; [congruence|]. apply class_of_spec in Hb; [tauto | exact Hx].
    + exists a. split; [exact Hne|]. apply class_of_spec in Ha; [tauto | exact Hx].
  - intros [He|[y [Hne [R1 R2]]]]; [now right | left].
    assert (Hy : In y (class_of g x)) by (apply class_of_spec; [exact Hx | repeat split; [eapply reach_nodes; eauto | exact R1 | exact R2]]).
    apply (nodup_two _ x y Hndc Hxc Hy). congruence.
Qed.

Lemma nodupb_spec l : nodupb l = true <-> NoDup l.
Proof.
  induction l as [|x l IH]; simpl; [split; [constructor | reflexivity]|].
  rewrite andb_true_iff, negb_true_iff, IH. split.
  - intros [Hm Hn]. constructor; [apply mem_false; exact Hm | exact Hn].
  - intros H. inversion H as [|? ? Hn Hr]; subst. split; [apply mem_false; exact Hn | exact Hr].
Qed.
Lemma subset_spec a b : subset a b = true <-> forall x, In x a -> In x b.
Proof. unfold subset. rewrite forallb_forall. split; intros H x Hx; [apply mem_In | apply mem_In]; auto. Qed.
Lemma seteq_spec a b : seteq a b = true <-> forall x, In x a <-> In x b.
Proof.
  unfold seteq. rewrite andb_true_iff, !subset_spec. split; [intros [H1 H2] x; split; auto | intros H; split; intros x Hx; apply H; exact Hx].
Qed.

(* the relational statement of C20 *)
Definition c20_spec (trivial : bool) (comps : list (list nat)) : Prop :=
  NoDup (concat comps) /\
  (forall c, In c comps -> c <> [] /\ forall x, In x c -> In x (nodes g) /\ forall y, In y c <-> (R x y /\ R y x)) /\
  (forall x, In x (nodes g) -> (In x (concat comps) <-> (trivial = true \/ cyc g x))).

(* the executable predicate evaluated on the implementation's output decides exactly that statement *)
Theorem c20_ok_iff_spec trivial comps : c20_ok g trivial comps = true <-> c20_spec trivial comps.
Proof.
  unfold c20_ok, c20_spec. rewrite !andb_true_iff, nodupb_spec, !forallb_forall. split.
  - intros [[[Hnd Hcl] Hin] Hcov]. split; [exact Hnd|]. split.
    + intros c Hc. specialize (Hcl c Hc). destruct c as [|x0 c']; [discriminate|]. split; [discriminate|].
      assert (Hx0 : In x0 (nodes g)) by (apply mem_In; apply Hin; apply in_concat; exists (x0 :: c'); split; [exact Hc | now left]).
      pose proof (proj1 (seteq_spec _ _) Hcl) as Hcl'. clear Hcl. rename Hcl' into Hcl.
      intros x Hx. assert (Hxn : In x (nodes g)) by (apply mem_In; apply Hin; apply in_concat; exists (x0 :: c'); auto).
      split; [exact Hxn|].
      assert (Hx' : R x0 x /\ R x x0) by (apply Hcl in Hx; apply class_of_spec in Hx; [tauto | exact Hx0]).
      intros y. rewrite Hcl, (class_of_spec x0 y Hx0). split.
      * intros [Hy [R1 R2]]. destruct Hx'. split; eapply reach_trans; eauto.
      * intros [R1 R2]. destruct Hx'. split; [eapply reach_nodes; eauto | split; eapply reach_trans; eauto].
    + intros x Hx. specialize (Hcov x Hx). apply Bool.eqb_prop in Hcov. rewrite <- mem_In, Hcov, orb_true_iff, (cyclic_spec x Hx). tauto.
  - intros [Hnd [Hcl Hcov]].
    assert (Hin : forall x, In x (concat comps) -> In x (nodes g)).
    { intros x Hx. apply in_concat in Hx. destruct Hx as [c [Hc Hxc]]. destruct (Hcl c Hc) as [_ H]. apply H. exact Hxc. }
    split; [split; [split; [exact Hnd|]|]|].
    + intros c Hc. destruct (Hcl c Hc) as [Hne H]. destruct c as [|x0 c']; [congruence|].
      destruct (H x0 (or_introl eq_refl)) as [Hx0 Hm]. apply seteq_spec. intros y. rewrite Hm, (class_of_spec x0 y Hx0).
      split; [intros [R1 R2]; split; [eapply reach_nodes; eauto | auto] | tauto].
    + intros x Hx. apply mem_In. apply Hin. exact Hx.
    + intros x Hx. apply Bool.eqb_true_iff. specialize (Hcov x Hx).
      destruct (mem x (concat comps)) eqn:Em.
      * apply mem_In in Em. apply Hcov in Em. symmetry. apply orb_true_iff. rewrite (cyclic_spec x Hx). exact Em.
      * symmetry. apply Bool.not_true_iff_false. intros Ht. apply orb_true_iff in Ht. rewrite (cyclic_spec x Hx) in Ht.
        apply Hcov in Ht. apply mem_In in Ht. congruence.
Qed.

(* hence the model's enumeration satisfies the executable statement for every such graph, in both modes *)
Theorem c20_holds_all trivial : c20_holds g trivial = true.
Proof.
  unfold c20_holds. destruct (sccs_correct g trivial Gnodup Gadj) as [comps [-> H]]. apply c20_ok_iff_spec. exact H.
Qed.
End S.

Theorem c20_holds_built os g trivial : apply_ops empty_graph os = Some g -> c20_holds g trivial = true.
Proof. intros H. destruct (built_graph_ok os empty_graph g empty_ok H) as [H1 H2]. apply c20_holds_all; assumption. Qed.
