(* Chk_C14.v — case type and checker for C14 (discovery). *)
From ZT Require Import Base Tree Filter Discover Chk_C08.

Definition ntable := list (str * bool).
Fixpoint nlookup (t : ntable) (n : str) : bool :=
  match t with [] => false | (k, b) :: r => if str_eqb k n then b else nlookup r n end.

Record case := {
  top : entry;                  (* the scratch directory: D name kids, in file-system enumeration order *)
  t_ident : ntable;             (* find.identifier on every directory name *)
  t_tpat : ntable;              (* options.tests_pattern on every directory name and stem *)
  t_fpat : ntable;              (* options.test_file_pattern on every stem *)
  ign : list str;
  usecompiled : bool;
  walk_roots : list path;       (* directories walked (test paths, or the --package directories) *)
  name_roots : list path;       (* test paths (module names are relative to them) *)
  mpats : list str;             (* --module patterns as post-processed (['.'] by default) *)
  mtab : table;                 (* re.search answers for (module pattern, module name) *)
  r_found : option (list path); (* implementation: find_test_files(options), paths below the scratch dir *)
  r_imported : option (list path) (* implementation: files whose module code ran, in order *)
}.

Definition opaths_eqb (a : list path) (b : option (list path)) : bool :=
  match b with None => true | Some l => list_eqb path_eqb a l end.

Definition m_found (c : case) : list path :=
  found_all (nlookup (t_ident c)) (nlookup (t_tpat c)) (nlookup (t_fpat c)) (ign c) (usecompiled c) (top c) (walk_roots c).
Definition m_imported (c : case) : list path :=
  map fst (imported (nlookup (t_ident c)) (nlookup (t_tpat c)) (nlookup (t_fpat c)) (ign c) (usecompiled c) (top c)
                    (lookup (mtab c)) (walk_roots c) (name_roots c) (mpats c)).

(* ---- the statement on the flat file listing ---- *)
Definition pmem (p : path) (l : list path) := existsb (path_eqb p) l.
Definition files_in (files : list path) (dir : path) : list str :=
  flat_map (fun p => if path_eqb (removelast p) dir then [last p []] else []) files.

Definition should_find (c : case) (files : list path) (p : path) : bool :=
  let tp := nlookup (t_tpat c) in
  existsb (fun root =>
    match strip_prefix root p with
    | Some rest =>
      match rev rest with
      | f :: rdirs =>
        forallb (fun d => negb (smem d (ign c)) && nlookup (t_ident c) d && negb (smem d ignore_folders)) rdirs
        && (let dirp := removelast p in
            let d := last dirp [] in
            let fs := files_in files dirp in
            match stem (usecompiled c) f with
            | Some s => nonempty s
                        && (tp s || (nlookup (t_fpat c) s && tp d && contains_init (usecompiled c) fs))
                        && negb (ends_with s_pyc' f && negb (ends_with s_py f) && smem (chop 4 f ++ s_py) fs)
            | None => false end)
      | [] => false
      end
    | None => false
    end) (walk_roots c).

Fixpoint nodup_paths (l : list path) : bool :=
  match l with [] => true | p :: r => negb (pmem p r) && nodup_paths r end.
(* files of one directory appear in ascending name order *)
Fixpoint same_dir_sorted (l : list path) : bool :=
  match l with
  | [] => true
  | p :: r => forallb (fun q => negb (path_eqb (removelast p) (removelast q))
                                || match str_cmp (last p []) (last q []) with Lt => true | _ => false end) r
              && same_dir_sorted r
  end.

Definition abs_files (c : case) : list path :=
  match top c with D n kids => map (cons n) (all_files kids) | F _ => [] end.

Definition c14_ok (c : case) : bool :=
  let files := abs_files c in
  match r_found c with
  | Some fl =>
    nodup_paths fl && same_dir_sorted fl
    && forallb (fun p => Bool.eqb (pmem p fl) (should_find c files p)) files
    && forallb (fun p => pmem p files) fl
  | None => true
  end
  && match r_imported c with
     | Some il =>
       nodup_paths il
       && forallb (fun p => should_find c files p
                    && match module_name (usecompiled c) (name_roots c) p with
                       | Some m => accept (lookup (mtab c)) (mpats c) m | None => false end) il
       && forallb (fun p => negb (should_find c files p)
                    || negb (match module_name (usecompiled c) (name_roots c) p with
                             | Some m => accept (lookup (mtab c)) (mpats c) m | None => false end)
                    || pmem p il) files
     | None => true
     end.

Definition check (c : case) : nat :=
  bit (negb (opaths_eqb (m_found c) (r_found c) && opaths_eqb (m_imported c) (r_imported c))) 1
  + bit (negb (c14_ok c)) 2.
