(* Chk_C14.v — case type and checker for C14 (discovery). *)
From ZT Require Import Base Tree Filter Discover Chk_C08.

Definition ntable := list (str * bool).
Fixpoint nlookup (t : ntable) (n : str) : bool :=
  match t with [] => false | (k, b) :: r => if str_eqb k n then b else nlookup r n end.

Record case := {
  top : entry;                  (* the scratch directory: D name kids, in file-system enumeration order *)
  t_ident : ntable;             (* find.identifier on every directory name *)
  t_tpat : ntable;              (* options.tests_pattern on every directory name and stem *)
  t_fpat : ntable;              (* options.test_file_pattern on every stem *)
  ign : list str;
  usecompiled : bool;
  walk_roots : list proot;      (* directories walked (test paths, or the --package directories) with the package they carry *)
  name_roots : list proot;      (* options.test_path: search paths ('' package) and --package-path DIR PKG mounts *)
  mpats : list str;             (* --module patterns as post-processed (['.'] by default) *)
  mtab : table;                 (* re.search answers for (module pattern, module name) *)
  r_found : option (list (path * str)); (* implementation: find_test_files(options): paths below the scratch dir, package *)
  r_names : option (list str);  (* implementation: module names find_suites hands to import_name, in order (stubbed import) *)
  r_imported : option (list path) (* implementation: files whose module code ran, in order *)
}.

Definition opaths_eqb (a : list path) (b : option (list path)) : bool :=
  match b with None => true | Some l => list_eqb path_eqb a l end.

Definition m_found (c : case) : list (path * str) :=
  found_all_pk (nlookup (t_ident c)) (nlookup (t_tpat c)) (nlookup (t_fpat c)) (ign c) (usecompiled c) (top c) (walk_roots c).
Definition m_imported_pk (c : case) : list (path * str) :=
  imported_pk (nlookup (t_ident c)) (nlookup (t_tpat c)) (nlookup (t_fpat c)) (ign c) (usecompiled c) (top c)
              (lookup (mtab c)) (walk_roots c) (name_roots c) (mpats c).
Definition m_imported (c : case) : list path := map fst (m_imported_pk c).
Definition m_names (c : case) : list str := map snd (m_imported_pk c).
Definition pk_eqb (a b : path * str) : bool := path_eqb (fst a) (fst b) && str_eqb (snd a) (snd b).
Definition ofound_eqb (a : list (path * str)) (b : option (list (path * str))) : bool :=
  match b with None => true | Some l => list_eqb pk_eqb a l end.
Definition onames_eqb (a : list str) (b : option (list str)) : bool :=
  match b with None => true | Some l => list_eqb str_eqb a l end.

(* ---- the statement on the flat file listing ---- *)
Definition pmem (p : path) (l : list path) := existsb (path_eqb p) l.
Definition files_in (files : list path) (dir : path) : list str :=
  flat_map (fun p => if path_eqb (removelast p) dir then [last p []] else []) files.

Definition should_find (c : case) (files : list path) (p : path) : bool :=
  let tp := nlookup (t_tpat c) in
  existsb (fun root =>
    match strip_prefix root p with
    | Some rest =>
      match rev rest with
      | f :: rdirs =>
        forallb (fun d => negb (smem d (ign c)) && nlookup (t_ident c) d && negb (smem d ignore_folders)) rdirs
        && (let dirp := removelast p in
            let d := last dirp [] in
            let fs := files_in files dirp in
            match stem (usecompiled c) f with
            | Some s => nonempty s
                        && (tp s || (nlookup (t_fpat c) s && tp d && contains_init (usecompiled c) fs))
                        && negb (ends_with s_pyc' f && negb (ends_with s_py f) && smem (chop 4 f ++ s_py) fs)
            | None => false end)
      | [] => false
      end
    | None => false
    end) (map fst (walk_roots c)).

Fixpoint nodup_paths (l : list path) : bool :=
  match l with [] => true | p :: r => negb (pmem p r) && nodup_paths r end.
(* files of one directory appear in ascending name order *)
Fixpoint same_dir_sorted (l : list path) : bool :=
  match l with
  | [] => true
  | p :: r => forallb (fun q => negb (path_eqb (removelast p) (removelast q))
                                || match str_cmp (last p []) (last q []) with Lt => true | _ => false end) r
              && same_dir_sorted r
  end.

(* "sorted by path" for a top-down walk: files of a directory in name order and before the files of its sub-directories,
   sub-directories in name order *)
Fixpoint path_before (p q : path) : bool :=
  match p, q with
  | [f], [g] => match str_cmp f g with Lt => true | _ => false end
  | [_], _ :: _ :: _ => true
  | _ :: _ :: _, [_] => false
  | a :: p', b :: q' => if str_eqb a b then path_before p' q' else match str_cmp a b with Lt => true | _ => false end
  | _, _ => false
  end.
Fixpoint path_sorted (l : list path) : bool :=
  match l with [] => true | p :: r => forallb (path_before p) r && path_sorted r end.

Definition abs_files (c : case) : list path :=
  match top c with D n kids => map (cons n) (all_files kids) | F _ => [] end.

(* the module names a file may go by: relative to a search root below which it lies, with that root's package;
   the statement does not fix which of them discovery uses, only that --module judges the file by its name *)
Definition cand_names (c : case) (p : path) : list (option str) :=
  flat_map (fun r => match strip_prefix (fst r) p with
                     | Some (_ :: _) => [name_under (usecompiled c) r p]
                     | _ => [] end) (name_roots c).
Definition okname (c : case) (o : option str) : bool :=
  match o with Some m => accept (lookup (mtab c)) (mpats c) m | None => false end.
Definition some_name_ok (c : case) (p : path) : bool := existsb (okname c) (cand_names c p).
Definition all_names_ok (c : case) (p : path) : bool :=
  match cand_names c p with [] => false | l => forallb (okname c) l end.

Definition c14_ok (c : case) : bool :=
  let files := abs_files c in
  match r_found c with
  | Some fk =>
    let fl := map fst fk in
    nodup_paths fl && same_dir_sorted fl
    && match walk_roots c with [_] => path_sorted fl | _ => true end      (* one search path: discovery order is path order *)
    && forallb (fun p => Bool.eqb (pmem p fl) (should_find c files p)) files
    && forallb (fun p => pmem p files) fl
  | None => true
  end
  && match r_imported c with
     | Some il =>
       nodup_paths il
       && forallb (fun p => should_find c files p && some_name_ok c p) il
       && forallb (fun p => negb (should_find c files p) || negb (all_names_ok c p) || pmem p il) files
     | None => true
     end
  && match r_names c with
     | Some nl =>
       (* every name handed to import is an accepted name of a file that is to be found; every file to be found all of whose
          names are accepted is handed over under one of them; no more names than files *)
       forallb (fun m => existsb (fun p => should_find c files p
                                           && existsb (fun o => match o with Some m' => str_eqb m m' && okname c o | None => false end)
                                                      (cand_names c p)) files) nl
       && forallb (fun p => negb (should_find c files p) || negb (all_names_ok c p)
                            || existsb (fun o => match o with Some m' => smem m' nl | None => false end) (cand_names c p)) files
       && Nat.leb (length nl) (length (filter (should_find c files) files))
       && Nat.leb (length (filter (fun p => should_find c files p && all_names_ok c p) files)) (length nl)
     | None => true
     end.

Definition check (c : case) : nat :=
  bit (negb (ofound_eqb (m_found c) (r_found c) && opaths_eqb (m_imported c) (r_imported c) && onames_eqb (m_names c) (r_names c))) 1
  + bit (negb (c14_ok c)) 2.
