(* P_C01.v — property theorems for C01 only. *)
From ZT Require Import Base Layers LayersFacts Run RunFacts.

(* the stack of a test's layer = the layer and all its transitive bases *)
Theorem C01_stack_is_layer_and_bases : forall w, wf w -> forall l x, l < nlayers w ->
  (In x (gather_layers w l) <-> x = l \/ tb w l x).
Proof. exact gather_layers_spec. Qed.
Print Assumptions C01_stack_is_layer_and_bases.

(* unneeded layers are torn down derived-first: a layer is attempted before any of its bases *)
Theorem C01_teardown_derived_first : forall w, wf (lw w) -> forall ls l b R1 R2,
  tb (lw w) l b -> in_range (lw w) ls -> In l ls ->
  rev (order_by_bases (lw w) ls) = R1 ++ b :: R2 -> In l R1.
Proof. exact teardown_derived_first. Qed.
Print Assumptions C01_teardown_derived_first.

(* a layer whose tearDown was attempted is forgotten whatever tearDown did; nothing is added *)
Theorem C01_teardown_forgets : forall w order optional p,
  snd (td_loop w order optional p) = false ->
  forall x, In x order -> ~ In x (ps_setup (fst (td_loop w order optional p))).
Proof. exact td_loop_completed_removes. Qed.
Print Assumptions C01_teardown_forgets.
Theorem C01_teardown_adds_nothing : forall w order optional p x,
  In x (ps_setup (fst (td_loop w order optional p))) -> In x (ps_setup p).
Proof. exact td_loop_forgets. Qed.
Print Assumptions C01_teardown_adds_nothing.

(* ------------------------------------------------------------------------------------------------------------
   The statement itself, on the model's full bookkeeping (every layer visible), for EVERY world, option set
   (--layer is applied before the run; -x, --repeat, -j N are options of `run`), fault script and process:
   c01_trace_ok replays a process's events and checks that
     - at every test start the layers set up are exactly the test's layer and its transitive bases,
     - a layer's setUp runs only when it is not set up and all its bases are,
     - a layer's tearDown runs only when it is set up and no layer derived from it still is,
     - after a tearDown that raised NotImplementedError no setUp and no test follows,
     - at the end nothing is left set up (each successful setUp was followed by exactly one tearDown attempt). *)
From ZT Require Import RunInv.

Theorem C01_parent_process : forall w, wf (lw w) -> forall o,
  (forall t, In t (tests w) -> t_layer t < nlayers (lw w)) ->
  c01_trace_ok w (r_parent (run w o)) = true.
Proof. exact c01_parent. Qed.
Print Assumptions C01_parent_process.

Theorem C01_every_subprocess : forall w, wf (lw w) -> forall o,
  (forall t, In t (tests w) -> t_layer t < nlayers (lw w)) ->
  forall c, In c (r_children (run w o)) -> c01_trace_ok w (c_ev c) = true.
Proof. exact c01_children. Qed.
Print Assumptions C01_every_subprocess.

(* a layer subprocess starts from nothing set up and obeys the same discipline *)
Theorem C01_fresh_subprocess : forall w, wf (lw w) -> forall o l, l < nlayers (lw w) ->
  c01_trace_ok w (c_ev (child_run w o l)) = true.
Proof. exact c01_child. Qed.
Print Assumptions C01_fresh_subprocess.

(* ------------------------------------------------------------------------------------------------------------
   Observation level.  The predicate Obs.c01_ok that the check evaluates on the IMPLEMENTATION's observation
   (hook calls of layers that define the hook, test phases) holds of the MODEL's observation of every run … *)
From ZT Require Import Chk_World Obs ObsC01.

Theorem C01_predicate_holds_of_model : forall w o,
  wf (lw w) -> (forall t, In t (tests w) -> t_layer t < nlayers (lw w)) ->
  c01_ok w (observed w (r_parent (run w o))) (map (fun c => (c_layer c, observed w (c_ev c))) (r_children (run w o))) = true.
Proof. exact c01_ok_model. Qed.
Print Assumptions C01_predicate_holds_of_model.

(* … hence, for sequential runs, a case on which the correspondence check finds no difference (check-code bit 1
   clear) and which is within the hypotheses (bit 4 clear) cannot violate the predicate (bit 2 clear). *)
Theorem C01_check_sound : forall c, agree c = true -> wf_case c = true -> Nat.ltb 1 (o_procs (Chk_World.o c)) = false ->
  c01_ok (Chk_World.w c) (i_parent c) (i_children c) = true.
Proof. exact c01_check_sound. Qed.
Print Assumptions C01_check_sound.
