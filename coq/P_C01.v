(* P_C01.v — property theorems for C01 only. *)
From ZT Require Import Base Layers LayersFacts Run RunFacts.

(* the stack of a test's layer = the layer and all its transitive bases *)
Theorem C01_stack_is_layer_and_bases : forall w, wf w -> forall l x, l < nlayers w ->
  (In x (gather_layers w l) <-> x = l \/ tb w l x).
Proof. exact gather_layers_spec. Qed.
Print Assumptions C01_stack_is_layer_and_bases.

(* unneeded layers are torn down derived-first: a layer is attempted before any of its bases *)
Theorem C01_teardown_derived_first : forall w, wf (lw w) -> forall ls l b R1 R2,
  tb (lw w) l b -> in_range (lw w) ls -> In l ls ->
  rev (order_by_bases (lw w) ls) = R1 ++ b :: R2 -> In l R1.
Proof. exact teardown_derived_first. Qed.
Print Assumptions C01_teardown_derived_first.

(* a layer whose tearDown was attempted is forgotten whatever tearDown did; nothing is added *)
Theorem C01_teardown_forgets : forall w order optional p,
  snd (td_loop w order optional p) = false ->
  forall x, In x order -> ~ In x (ps_setup (fst (td_loop w order optional p))).
Proof. exact td_loop_completed_removes. Qed.
Print Assumptions C01_teardown_forgets.
Theorem C01_teardown_adds_nothing : forall w order optional p x,
  In x (ps_setup (fst (td_loop w order optional p))) -> In x (ps_setup p).
Proof. exact td_loop_forgets. Qed.
Print Assumptions C01_teardown_adds_nothing.
