(* Obs.v — the statements of the world-based properties as boolean predicates over what a run
   lets us observe (hook calls and test phases per process, the lists and numbers the runner
   reports).  The same predicates are evaluated on the implementation's observations by the checks
   and proved of the model's observations in the *Facts files. *)
From ZT Require Import Base Layers Run Chk_World.

Section O.
Variable w : rworld.

Definition stack (l : nat) : list nat := gather_layers (lw w) l.
Definition layer_of (t : nat) : nat := match nth_error (tests w) t with Some b => t_layer b | None => 0 end.
Definition has_su (l : nat) := match l_setup (spec_of w l) with Some _ => true | None => false end.
Definition has_td (l : nat) := match l_teardown (spec_of w l) with Some _ => true | None => false end.
(* fully observable layers: both layer hooks present *)
Definition fo (l : nat) : bool := has_su l && has_td l.
Definition strict_base (l b : nat) : bool := negb (Nat.eqb l b) && mem b (stack l).

(* ------------------------------------------------------------------ C01 *)
(* state: active fully-observable layers, NotImplementedError seen, verdict so far *)
Definition c01_step (s : list nat * bool * bool) (e : oev) : list nat * bool * bool :=
  let '(act, ni, ok) := s in
  match e with
  | OSetUp l out =>
    let c := negb ni && (negb (fo l) || (negb (mem l act) && forallb (fun b => negb (fo b) || mem b act) (bases_of (lw w) l))) in
    (match out with HOk => if fo l then act ++ [l] else act | _ => act end, ni, ok && c)
  | OTearDown l out =>
    let c := negb (fo l) || (mem l act && forallb (fun d => negb (strict_base d l)) act) in
    (filter (fun x => negb (Nat.eqb x l)) act, ni || match out with HNotImpl => true | _ => false end, ok && c)
  | OPhase t _ _ =>
    let c := negb ni && seteq act (filter fo (stack (layer_of t))) in
    (act, ni, ok && c)
  | _ => s
  end.
Definition c01_proc (evs : list oev) : bool :=
  let '(act, _, ok) := fold_left c01_step evs ([], false, true) in
  ok && match act with [] => true | _ => false end.
Definition c01_ok (parent : list oev) (children : list (nat * list oev)) : bool :=
  c01_proc parent && forallb (fun ch => c01_proc (snd ch)) children.

(* ------------------------------------------------------------------ C05 *)
(* one test execution as seen by the layers: testSetUp calls, the test's phases, testTearDown calls *)
Record group := { g_ups : list nat; g_test : option nat; g_downs : list nat }.
(* parser state: finished groups (reversed), current ups, current test, current downs, where:
   0 collecting ups, 1 in phases, 2 collecting downs *)
Definition g_step (s : list group * list nat * option nat * list nat * nat) (e : oev)
  : list group * list nat * option nat * list nat * nat :=
  let '(done, ups, t, downs, mode) := s in
  let close := {| g_ups := ups; g_test := t; g_downs := downs |} :: done in
  let started := match ups, t, downs with [], None, [] => false | _, _, _ => true end in
  match e with
  | OTSetUp l =>
    if Nat.eqb mode 0 then (done, ups ++ [l], t, downs, 0)
    else (close, [l], None, [], 0)
  | OPhase t' ph _ =>
    if Nat.eqb ph 0 then
      (if Nat.eqb mode 0 then (done, ups, Some t', downs, 1)          (* the test's own setUp follows the ups *)
       else (close, [], Some t', [], 1))
    else (done, ups, t, downs, mode)                                   (* later phases of the current test *)
  | OTTearDown l =>
    (done, ups, t, downs ++ [l], 2)
  | _ => if started then (close, [], None, [], 0) else s
  end.
Definition groups (evs : list oev) : list group :=
  let '(done, ups, t, downs, _) := fold_left g_step evs ([], [], None, [], 0) in
  rev (match ups, t, downs with [], None, [] => done | _, _, _ => {| g_ups := ups; g_test := t; g_downs := downs |} :: done end).

Fixpoint nodupb (l : list nat) : bool := match l with [] => true | x :: r => negb (mem x r) && nodupb r end.
(* no element is preceded by one of its strict derived layers (bases first) *)
Fixpoint bases_first (l : list nat) : bool :=
  match l with [] => true | x :: r => forallb (fun y => negb (strict_base x y)) r && bases_first r end.
(* restricted to layers having both per-test hooks, downs is the reverse of ups *)
Definition mirrored (ups downs : list nat) : bool :=
  let both x := l_tsetup (spec_of w x) && l_tteardown (spec_of w x) in
  list_eqb Nat.eqb (filter both ups) (rev (filter both downs)).
Definition group_ok_for (L : nat) (g : group) : bool :=
  let S := stack L in
  seteq (g_ups g) (filter (fun x => l_tsetup (spec_of w x)) S) && nodupb (g_ups g) && bases_first (g_ups g)
  && seteq (g_downs g) (filter (fun x => l_tteardown (spec_of w x)) S) && nodupb (g_downs g) && bases_first (rev (g_downs g))
  && mirrored (g_ups g) (g_downs g).
Definition group_ok (g : group) : bool :=
  match g_test g with
  | Some t => group_ok_for (layer_of t) g
  | None => (* a test skipped by decorator runs no code of its own: some such test must explain the calls *)
    existsb (fun b => t_deco b && group_ok_for (t_layer b) g) (tests w)
  end.
Definition c05_proc (evs : list oev) : bool := forallb group_ok (groups evs).
Definition c05_ok (parent : list oev) (children : list (nat * list oev)) : bool :=
  c05_proc parent && forallb (fun ch => c05_proc (snd ch)) children.

(* ------------------------------------------------------------------ shared: outcomes of a test, from the world *)
(* does executing this test record at least one failure / error / unexpected success ? *)
Definition is_bad_res (p : pev) : bool :=
  match p with PRes RFail _ | PRes RErr _ | PRes RSubFail _ | PRes RSubErr _ | PRes RUS _ => true | _ => false end.
Definition test_bad (b : test) : bool := existsb is_bad_res (proto b).
Definition count_res (f : rkind -> bool) (b : test) : nat :=
  length (filter (fun p => match p with PRes r _ => f r | PDecoSkip => f RSkip | _ => false end) (proto b)).

(* tests started in a process, in order (a test starts with its setUp phase; decorator-skipped ones are invisible) *)
Definition started (evs : list oev) : list nat :=
  flat_map (fun e => match e with OPhase t 0 _ => [t] | _ => [] end) evs.
(* an exception out of a layer's setUp (of any class, NotImplementedError included) or an error out of its tearDown
   (NotImplementedError from tearDown means "cannot be torn down" and is not an error) *)
Definition bad_layer_event (e : oev) : bool :=
  match e with OSetUp _ HRaise | OSetUp _ HNotImpl | OTearDown _ HRaise => true | _ => false end.
End O.

(* ================================================================== *)
(* predicates that need the whole case (options, reported lists and numbers) *)
Definition all_procs (c : case) : list (list oev) := i_parent c :: map snd (i_children c).
Definition reps_of (c : case) : nat := match o_repeat (o c) with 0 => 1 | n => n end.
Definition behaviour (c : case) (t : nat) : option test := nth_error (tests (w c)) t.
Definition bad_test (c : case) (t : nat) : bool :=
  match behaviour c t with Some b => test_bad b | None => false end.

(* ------------------------------------------------------------------ C16 *)
(* per process: once a test that records a failure/error has started (and hence, tests being contiguous,
   finished) or a layer setUp has failed, no test starts and no layer is set up any more *)
Definition c16_step (c : case) (s : bool * bool) (e : oev) : bool * bool :=
  let '(bad, ok) := s in
  match e with
  | OPhase t 0 _ => (bad || bad_test c t, ok && negb bad)
  | OSetUp _ HOk => (bad, ok && negb bad)
  | OSetUp _ _ => (true, ok && negb bad)
  | _ => s
  end.
Definition c16_proc (c : case) (evs : list oev) : bool * bool := fold_left (c16_step c) evs (false, true).
(* sequential run: the processes, in the order they ran, form one history *)
Definition c16_ok (c : case) : bool :=
  negb (o_x (o c)) ||
  (let '(bad, ok) := fold_left (fun s evs => let '(b, k) := s in
                                  let '(b', k') := c16_proc c evs in
                                  (* a process may start only while nothing bad is known *)
                                  (b || b', k && k' && negb (b && match evs with [] => false | _ => true end)))
                               (all_procs c) (false, true) in
   ok
   && (negb bad || i_failed c)                                   (* the verdict is 'failed' *)
   && forallb (c01_proc (w c)) (all_procs c)                     (* what was set up has been torn down *)
   && negb (i_aborted c)
   && match i_summaries c with [] => negb (existsb (fun evs => match started evs with [] => false | _ => true end) (all_procs c))
                             | _ => true end).                   (* a summary was printed *)

(* ------------------------------------------------------------------ C12 *)
Definition names_of (c : case) (t : nat) (want_err : bool) : list name :=
  match behaviour c t with
  | None => []
  | Some b => flat_map (fun p => match p with
                | PRes RFail _ => if want_err then [] else [NTest t]
                | PRes RSubFail k => if want_err then [] else [NSub t k]
                | PRes RUS _ => if want_err then [] else [NTest t]
                | PRes RErr _ => if want_err then [NTest t] else []
                | PRes RSubErr k => if want_err then [NSub t k] else []
                | _ => [] end) (proto b)
  end.
Definition skips_of (c : case) (t : nat) : nat :=
  match behaviour c t with Some b => count_res (fun r => match r with RSkip | RSubSkip => true | _ => false end) b | None => 0 end.
Definition layer_failures (evs : list oev) : list name :=
  flat_map (fun e => match e with OSetUp l HRaise | OSetUp l HNotImpl => [NLayerSetUp l] | OTearDown l HRaise => [NLayerTearDown l] | _ => [] end) evs.
(* decorator-skipped tests run no code; they count as run (and skipped) when their layer's tests ran *)
Definition deco_tests (c : case) (evs : list oev) : list test :=
  filter (fun b => t_deco b && existsb (fun t => Nat.eqb (layer_of (w c) t) (t_layer b)) (started evs)) (tests (w c)).
Definition deco_counted (c : case) (evs : list oev) : nat := length (deco_tests c evs).
(* what a started test adds to "tests run": its countTestCases() *)
Definition cnt_of (c : case) (t : nat) : nat := match behaviour c t with Some b => t_count b | None => 1 end.
Definition deco_ran (c : case) (evs : list oev) : nat := fold_left (fun a b => a + t_count b) (deco_tests c evs) 0.

Definition sum4 (l : list (nat * nat * nat * nat)) : nat * nat * nat * nat :=
  fold_left (fun a q => let '(a1, a2, a3, a4) := a in let '(b1, b2, b3, b4) := q in (a1 + b1, a2 + b2, a3 + b3, a4 + b4)) l (0, 0, 0, 0).

(* hypotheses under which the statement is evaluated (others are counted as outside) *)
Definition c12_hyps (c : case) : bool :=
  (* with -x the statement is evaluated when no test is skipped by decorator (whether such a test "ran" after the stop
     leaves no trace) and the run is not repeated *)
  (negb (o_x (o c)) || (forallb (fun b => negb (t_deco b)) (tests (w c)) && Nat.eqb (reps_of c) 1))
  && Nat.eqb (o_import_errors (o c)) 0
  (* every layer that has a decorator-skipped test also has an ordinary one, so that "its tests ran" is observable *)
  && forallb (fun b => negb (t_deco b) || existsb (fun b' => negb (t_deco b') && Nat.eqb (t_layer b') (t_layer b)) (tests (w c))) (tests (w c)).

Definition c12_core (c : case) (skip_all_procs : bool) : bool :=
  let procs := all_procs c in
  let st := flat_map started procs in
  let exp_fail := flat_map (fun t => names_of c t false) st in
  let exp_err := flat_map (fun t => names_of c t true) st ++ flat_map layer_failures procs in
  (* decorator-skipped tests leave no trace event: they count once per --repeat iteration of their layer *)
  let r := reps_of c in
  let exp_ran := fold_left (fun a t => a + cnt_of c t) st 0 + r * fold_left (fun a evs => a + deco_ran c evs) procs 0 in
  let skip_in evs := fold_left (fun a t => a + skips_of c t) (started evs) 0 + r * deco_counted c evs in
  let exp_skip := if skip_all_procs then fold_left (fun a evs => a + skip_in evs) procs 0 else skip_in (i_parent c) in
  let '(s1, s2, s3, s4) := sum4 (i_summaries c) in
  (* names listed = exactly the failing / erroring tests and failed layers (plus subprocess errors, none here) *)
  names_perm exp_fail (i_fail c)
  (* errors: tests and layer tear-downs by their own name; a failed layer set-up is listed under the layer that was being
     set up for its tests, whose stack contains the layer whose setUp raised *)
  && names_perm (filter (fun n => match n with NLayerSetUp _ => false | _ => true end) exp_err)
                (filter (fun n => match n with NSubprocess _ | NLayerSetUp _ => false | _ => true end) (i_err c))
  && (let raised := flat_map (fun n => match n with NLayerSetUp l => [l] | _ => [] end) exp_err in
      let listed := flat_map (fun n => match n with NLayerSetUp l => [l] | _ => [] end) (i_err c) in
      Nat.eqb (length raised) (length listed)
      && forallb (fun L => existsb (fun l => mem l (stack (w c) L)) raised) listed
      && forallb (fun l => existsb (fun L => mem l (stack (w c) L)) listed) raised)
  (* --repeat n: failures, errors and skips are reported for all iterations, the "tests run" total for one iteration of each
     layer (what upstream documents: "Total: 182 tests" for three iterations); the per-iteration summaries add up to all *)
  && Nat.eqb exp_ran (r * i_ran c)
  && Nat.eqb exp_skip (i_skip c)
  (* per-layer summaries add up to the same numbers (layer failures are not attributed to a summary line) *)
  && Nat.eqb s1 exp_ran && Nat.eqb s2 (length exp_fail)
  && Nat.eqb s3 (length (flat_map (fun t => names_of c t true) st))
  && Nat.eqb s4 (fold_left (fun a evs => a + skip_in evs) procs 0)
  (* the Total line, when shown, repeats the reported numbers *)
  && match i_total c with
     | Some (a, b, d, e) => Nat.eqb a (i_ran c) && Nat.eqb b (length (i_fail c)) && Nat.eqb d (length (i_err c)) && Nat.eqb e (i_skip c)
     | None => true end.
Definition c12_ok (c : case) : bool := negb (c12_hyps c) || c12_core c true.
(* classifier for the open finding: skips recorded in subprocess layers are missing from the totals *)
Definition c12_skip_finding (c : case) : bool :=
  c12_hyps c && negb (c12_core c true) && c12_core c false
  && match i_children c with [] => false | _ => true end.

(* ------------------------------------------------------------------ C02 *)
Definition anything_bad (c : case) (injected : bool) : bool :=
  existsb (bad_test c) (flat_map started (all_procs c))
  || Nat.ltb 0 (o_import_errors (o c))
  || existsb (fun evs => existsb bad_layer_event evs) (all_procs c)
  || injected.
Definition c02_ok (c : case) (injected : bool) : bool :=
  negb (i_aborted c) && Bool.eqb (i_failed c) (anything_bad c injected).

(* ------------------------------------------------------------------ C03 *)
Fixpoint count_nat (x : nat) (l : list nat) : nat :=
  match l with [] => 0 | y :: r => (if Nat.eqb x y then 1 else 0) + count_nat x r end.
(* can the layer stack of test t be set up at all?  (every setUp script on the stack is all-ok) *)
Definition stack_reliable (c : case) (l : nat) : bool :=
  forallb (fun x => match l_setup (spec_of (w c) x) with
                    | Some sc => forallb (fun h => match h with HOk => true | _ => false end) sc | None => true end)
          (stack (w c) l).
Definition c03_ok (c : case) : bool :=
  let st := flat_map started (all_procs c) in
  let n := length (tests (w c)) in
  (* nothing unknown runs, nothing runs more often than --repeat asks, each execution inside one process *)
  forallb (fun t => Nat.ltb t n) st
  && forallb (fun t => Nat.leb (count_nat t st) (reps_of c)) (seq 0 n)
  (* every selected test runs exactly once per iteration, unless a stop condition applies *)
  && (o_x (o c) ||
      forallb (fun t => match behaviour c t with
                        | Some b => t_deco b || negb (stack_reliable c (t_layer b)) || Nat.eqb (count_nat t st) (reps_of c)
                        | None => true end) (seq 0 n))
  (* under its own layer: checked by C01's clause on every phase event *)
  && forallb (c01_proc (w c)) (all_procs c).

(* ------------------------------------------------------------------ C04 *)
Definition c04_ok (c : case) : bool :=
  negb (i_aborted c)
  (* every other selected test whose layers can be set up still runs (absent -x) *)
  && (o_x (o c) ||
      forallb (fun t => match behaviour c t with
                        | Some b => t_deco b || negb (stack_reliable c (t_layer b))
                                    || Nat.leb 1 (count_nat t (flat_map started (all_procs c)))
                        | None => true end) (seq 0 (length (tests (w c)))))
  (* the remaining layers are still torn down *)
  && forallb (c01_proc (w c)) (all_procs c)
  (* and a summary is produced for every layer whose tests ran *)
  && Nat.leb (length (filter (fun evs => match started evs with [] => false | _ => true end) (all_procs c)))
             (length (i_summaries c)).

(* "whose layers can be set up", read off the run itself: without -x, a layer group none of whose tests started must be accounted
   for by a setUp that raised while that group's stack was being set up — some layer of its stack has a raising setUp attempt, and
   there are at least as many raising attempts as there are such groups (every group makes its own attempt; a failure met for
   one group does not excuse the next).  Evaluated on the implementation's observation only (not proved of the model). *)
Definition raising_setups (c : case) : list nat :=
  flat_map (fun evs => flat_map (fun e => match e with OSetUp l HRaise => [l] | _ => [] end) evs) (all_procs c).
Definition group_not_run (c : case) (l : nat) : bool :=
  let st := flat_map started (all_procs c) in
  let idx := seq 0 (length (tests (w c))) in
  let mine t := match behaviour c t with Some b => Nat.eqb (t_layer b) l && negb (t_deco b) | None => false end in
  existsb mine idx && negb (existsb (fun t => mine t && mem t st) idx).
Definition c04_charged (c : case) : bool :=
  o_x (o c) || i_injected c ||
  let ls := nodup Nat.eq_dec (map t_layer (tests (w c))) in
  let nr := filter (group_not_run c) ls in
  forallb (fun l => existsb (fun x => mem x (stack (w c) l)) (raising_setups c)) nr
  && Nat.leb (length nr) (length (raising_setups c)).

(* ------------------------------------------------------------------ the checks *)
(* with an injected subprocess fault the run model does not apply (it has no dying children): only the predicate is evaluated *)
Definition base_code (c : case) : nat := bit (negb (i_injected c) && negb (agree c)) 1 + bit (negb (wf_case c)) 4.
Definition check_C01 (c : case) : nat := base_code c + bit (negb (c01_ok (w c) (i_parent c) (i_children c))) 2.
(* the grouping of hook calls into test executions is unambiguous when every layer defines both per-test hooks or
   neither, or no test is skipped by decorator: the hypothesis of C05_predicate_holds_of_model (other cases: bit 4) *)
Definition sym_case (c : case) : bool :=
  forallb (fun s => Bool.eqb (l_tsetup s) (l_tteardown s)) (lsp (w c)) || forallb (fun b => negb (t_deco b)) (tests (w c)).
Definition check_C05 (c : case) : nat :=
  base_code c + bit (negb (c05_ok (w c) (i_parent c) (i_children c))) 2 + bit (wf_case c && negb (sym_case c)) 4.
Definition check_C16 (c : case) : nat := base_code c + bit (negb (c16_ok c)) 2.
(* -x together with -j N: which children have started when the first failure becomes known is a race, so the run model does not
   apply; what the statement says regardless is evaluated: whatever was set up in any process has been torn down there, the
   verdict is 'failed' when something bad happened, nothing escaped *)
Definition check_C16_parallel (c : case) : nat :=
  bit (negb (negb (i_aborted c)
             && forallb (c01_proc (w c)) (all_procs c)
             && (negb (existsb (bad_test c) (flat_map started (all_procs c))) || i_failed c))) 2.
(* with an injected subprocess fault the lists must say so: an error entry for the layer's subprocess, verdict failed *)
Definition c12_injected_ok (c : case) : bool :=
  i_failed c && existsb (fun nm => match nm with NSubprocess _ => true | _ => false end) (i_err c) && negb (i_aborted c).
(* when the runner prints its "Tests with failures:" / "Tests with errors:" listings they name exactly the reported lists *)
Definition listing_ok (c : case) : bool :=
  match i_lfail c with Some l => names_perm l (i_fail c) | None => true end
  && match i_lerr c with Some l => names_perm l (i_err c) | None => true end.
Definition check_C12 (c : case) : nat :=
  if i_injected c then bit (negb (c12_injected_ok c && listing_ok c)) 2 else
  base_code c + bit (negb (c12_ok c && listing_ok c)) 2 + bit (c12_skip_finding c && listing_ok c) 8 + bit (negb (c12_hyps c)) 16.
Definition check_C02 (c : case) : nat := base_code c + bit (negb (c02_ok c (i_injected c))) 2.
Definition check_C02_injected (c : case) : nat := bit (negb (c02_ok c true)) 2.
Definition check_C03 (c : case) : nat := base_code c + bit (negb (c03_ok c)) 2.
Definition check_C04 (c : case) : nat := base_code c + bit (negb (c04_ok c && c04_charged c)) 2.
