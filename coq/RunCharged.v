(* RunCharged.v — whole-run statement behind "every other selected test whose layers can be set up still runs" (C04), read
   off the run itself: without -x, a selected test is started once per --repeat iteration, counted over all processes,
   OR some layer of its own stack has a setUp attempt that failed in some process of the run.  Nothing else — no other
   layer's failure, no test outcome, no tearDown, no resumption in subprocesses — can keep it from running. *)
From ZT Require Import Base Layers LayersFacts Run RunFacts RunLedger RunOnce RunAtMost.

Section O.
Variable w : rworld.
Variable o : ropts.
Hypothesis Hwf : wf (lw w).
Hypothesis Hnox : o_x o = false.
Hypothesis Htests : forall b, In b (tests w) -> t_layer b < nlayers (lw w).
Variable t : nat.
Variable L : nat.                       (* the layer of test t *)
Hypothesis HL : L < nlayers (lw w).

(* a failed setUp attempt of a layer of L's stack *)
Definition nf (e : ev) : nat :=
  match e with
  | ESetUp x HOk => 0
  | ESetUp x _ => if mem x (gather_layers (lw w) L) then 1 else 0
  | _ => 0
  end.
(* potential: starts of t, plus `reps` for every failed setUp attempt in the stack *)
Definition phi (evs : list ev) : nat := total (ns t) evs + reps o * total nf evs.

Lemma phi_app a b : phi (a ++ b) = phi a + phi b.
Proof. unfold phi. rewrite !total_app. lia. Qed.

Definition in_stack (l : nat) : Prop := l = L \/ tb (lw w) L l.
Lemma tb_right x l b : tb (lw w) x l -> In b (bases_of (lw w) l) -> tb (lw w) x b.
Proof.
  intros H Hb. induction H as [x l Hm | x m l Hm Hml IH].
  - eapply tbS; [exact Hm | now apply tb1].
  - eapply tbS; [exact Hm | now apply IH].
Qed.
Lemma in_stack_base l b : in_stack l -> In b (bases_of (lw w) l) -> in_stack b.
Proof. intros [->|H] Hb; right; [now apply tb1 | eapply tb_right; eauto]. Qed.
Lemma in_stack_mem l : in_stack l -> mem l (gather_layers (lw w) L) = true.
Proof. intros H. apply mem_In. apply (gather_layers_spec (lw w) Hwf L l HL). exact H. Qed.

Lemma nf_test_events l t' ps : total nf (flat_map (p_ev w l t') ps) = 0.
Proof.
  induction ps as [|p ps IH]; simpl; [reflexivity|]. rewrite total_app, IH.
  destruct p as [| |ph k|r k|]; simpl; rewrite ?total_app, ?hooks_up_quiet, ?hooks_down_quiet by reflexivity; reflexivity.
Qed.
Lemma run_test_nf l t' b s : total nf (rs_ev (run_test w o l t' b s)) = total nf (rs_ev s).
Proof.
  destruct (run_test_effect w o l t' b s) as [_ [_ [_ [_ [_ [_ F7]]]]]]. rewrite F7, total_app, nf_test_events. lia.
Qed.
Lemma run_seq_nf l : forall ts s, total nf (rs_ev (run_seq w o l ts s)) = total nf (rs_ev s).
Proof.
  induction ts as [|[t' b] ts IH]; intros s; simpl; [reflexivity|]. destruct (rs_stop s); [reflexivity|].
  rewrite IH, run_test_nf. reflexivity.
Qed.
Lemma repeat_loop_nf : forall n l p, total nf (ps_ev (repeat_loop w o n l p)) = total nf (ps_ev p).
Proof.
  induction n as [|n IH]; intros l p; simpl; [reflexivity|].
  pose proof (run_seq_nf l (tests_of w l) rs_init) as R. simpl in R.
  destruct (rs_stop (run_seq w o l (tests_of w l) rs_init)); [|rewrite IH]; cbn [ps_ev]; rewrite !total_app, R; simpl; lia.
Qed.

(* setup_layer: failed attempts only add to the count; an exception that escapes means one more failed attempt in the stack *)
Lemma setup_layer_nf : forall fuel l p,
  total nf (ps_ev p) <= total nf (ps_ev (fst (setup_layer w fuel l p))) /\
  (l < fuel -> in_stack l -> snd (setup_layer w fuel l p) = true ->
   total nf (ps_ev p) + 1 <= total nf (ps_ev (fst (setup_layer w fuel l p)))).
Proof.
  induction fuel as [|f IH]; intros l p; [split; [simpl; lia | lia]|]. cbn [setup_layer].
  destruct (mem l (ps_setup p)); [split; [simpl; lia | simpl; discriminate]|].
  set (F := fun (acc : pstate * bool) b => let '(q, x) := acc in if x then (q, x) else setup_layer w f b q).
  assert (Hfold : forall bs q x,
            total nf (ps_ev q) <= total nf (ps_ev (fst (fold_left F bs (q, x)))) /\
            (x = false -> (forall b, In b bs -> b < f /\ in_stack b) -> snd (fold_left F bs (q, x)) = true ->
             total nf (ps_ev q) + 1 <= total nf (ps_ev (fst (fold_left F bs (q, x)))))).
  { induction bs as [|b bs IHb]; intros q x; simpl; [split; [lia | intros ->; discriminate]|].
    destruct x.
    - destruct (IHb q true) as [I1 _]. split; [exact I1 | discriminate].
    - destruct (IH b q) as [S1 S2]. destruct (setup_layer w f b q) as [q1 x1] eqn:Eb. simpl in S1, S2.
      destruct (IHb q1 x1) as [I1 I2]. split; [lia|]. intros _ Hb Hexc.
      destruct x1.
      + destruct (Hb b (or_introl eq_refl)) as [B1 B2]. specialize (S2 B1 B2 eq_refl). lia.
      + specialize (I2 eq_refl (fun b' Hb' => Hb b' (or_intror Hb')) Hexc). lia. }
  destruct (Hfold (bases_of (lw w) l) p false) as [G1 G2].
  destruct (fold_left F (bases_of (lw w) l) (p, false)) as [p1 exc]. simpl in G1, G2.
  destruct exc.
  - split; [exact G1|]. intros Hl Hs _. apply G2; [reflexivity | | reflexivity].
    intros b Hb. split; [specialize (Hwf l b Hb); lia | eapply in_stack_base; eauto].
  - set (out := match l_setup (spec_of w l) with None => HOk | Some sc => script_at sc (cnt l (ps_att_su p1)) end).
    cbn [fst snd ps_ev]. rewrite total_app. split; [lia|]. intros Hl Hs Hexc.
    assert (Hone : total nf [ESetUp l out] = 1).
    { pose proof (in_stack_mem l Hs) as Hm. clearbody out. destruct out; [discriminate | |]; unfold total; cbn [fold_right nf]; rewrite Hm; reflexivity. }
    lia.
Qed.

Lemma setup_layer_ns_le fuel l p : total (ns t) (ps_ev p) <= total (ns t) (ps_ev (fst (setup_layer w fuel l p))).
Proof. rewrite setup_layer_quiet. lia. Qed.

(* one layer group: the potential grows by reps * c l unless CanNotTearDown hands the layer over to a subprocess *)
Lemma run_layer_phi l p : l < nlayers (lw w) -> (c w t l = 0 \/ l = L) ->
  phi (ps_ev p) + (if snd (run_layer w o l p) then 0 else reps o * c w t l) <= phi (ps_ev (fst (run_layer w o l p))).
Proof.
  intros Hl Hc. unfold run_layer, tear_down_unneeded.
  set (ord := rev (order_by_bases (lw w) (filter (fun x => negb (mem x (gather_layers (lw w) l))) (ps_setup p)))).
  pose proof (td_loop_quiet w (ns t) (fun _ _ => eq_refl) (fun _ => eq_refl) ord false p) as T1.
  pose proof (td_loop_quiet w nf (fun _ _ => eq_refl) (fun _ => eq_refl) ord false p) as T2.
  destruct (td_loop w ord false p) as [p1 cannot]. simpl in T1, T2.
  destruct cannot; [simpl; unfold phi; lia|].
  pose proof (setup_layer_quiet w t (S (nlayers (lw w))) l p1) as S1.
  destruct (setup_layer_nf (S (nlayers (lw w))) l p1) as [S2 S3].
  destruct (setup_layer w (S (nlayers (lw w))) l p1) as [p2 exc]. simpl in S1, S2, S3.
  destruct exc.
  - cbn [fst snd ps_ev]. unfold phi. rewrite S1, T1.
    destruct Hc as [Hc| ->]; [rewrite Hc; nia|].
    specialize (S3 ltac:(lia) (or_introl eq_refl) eq_refl).
    assert (Hc1 : c w t L <= 1).
    { rewrite c_spec. destruct (nth_error (tests w) t); [destruct (Nat.eqb _ _)|]; lia. }
    nia.
  - cbn [fst snd]. unfold phi. rewrite (repeat_loop_ns w o Hnox), repeat_loop_nf. cbn [ps_ev]. nia.
Qed.

Hypothesis Hlayer : forall l, c w t l = 0 \/ l = L.

Lemma parent_loop_phi : forall ls p ran n, (forall l, In l ls -> l < nlayers (lw w)) ->
  let '(p', _, rest, resume, _) := parent_loop w o ls p ran n in
  exists done, ls = done ++ rest /\
    phi (ps_ev p) + reps o * sum_over (c w t) done <= phi (ps_ev p') /\
    (resume = false -> rest = []).
Proof.
  induction ls as [|l ls IH]; intros p ran n Hr; simpl.
  - exists []. repeat split; auto. simpl. lia.
  - pose proof (run_layer_phi l p (Hr l (or_introl eq_refl)) (Hlayer l)) as Hl.
    destruct (run_layer w o l p) as [p1 cannot]. simpl in Hl. destruct cannot.
    + exists []. split; [reflexivity|]. split; [simpl; lia | discriminate].
    + rewrite Hnox. cbn [andb].
      specialize (IH p1 (ran + ps_ran p1) (S n) (fun x Hx => Hr x (or_intror Hx))).
      destruct (parent_loop w o ls p1 (ran + ps_ran p1) (S n)) as [[[[p' ran'] rest] resume] n'].
      destruct IH as [done [E [T R]]]. exists (l :: done). split; [simpl; now rewrite E|]. split; [|exact R].
      simpl. lia.
Qed.

Lemma child_phi l : l < nlayers (lw w) -> reps o * c w t l <= phi (c_ev (child_run w o l)).
Proof.
  intros Hl. unfold child_run.
  pose proof (run_layer_phi l ps_init Hl (Hlayer l)) as H.
  assert (Hc : snd (run_layer w o l ps_init) = false).
  { unfold run_layer, tear_down_unneeded. simpl ps_setup. cbn [filter].
    destruct (td_loop w (rev (order_by_bases (lw w) [])) false ps_init) as [p1 c1] eqn:E.
    assert (c1 = false) by (simpl in E; congruence). subst c1.
    destruct (setup_layer w (S (nlayers (lw w))) l p1) as [p2 exc]. destruct exc; reflexivity. }
  destruct (run_layer w o l ps_init) as [p1 c1]. simpl in Hc, H. subst c1. unfold tear_down_unneeded.
  set (ord := rev (order_by_bases (lw w) (filter (fun x => negb (mem x [])) (ps_setup p1)))).
  pose proof (td_loop_quiet w (ns t) (fun _ _ => eq_refl) (fun _ => eq_refl) ord true p1) as T1.
  pose proof (td_loop_quiet w nf (fun _ _ => eq_refl) (fun _ => eq_refl) ord true p1) as T2.
  destruct (td_loop w ord true p1) as [p2 c2]. simpl in T1, T2. cbn [c_ev]. unfold phi in *. rewrite T1, T2.
  simpl in H. lia.
Qed.

Definition sum_phi (cs : list report) : nat := fold_right (fun c a => phi (c_ev c) + a) 0 cs.
Lemma children_phi : forall ls, (forall l, In l ls -> l < nlayers (lw w)) ->
  reps o * sum_over (c w t) ls <= sum_phi (map (child_run w o) ls).
Proof.
  induction ls as [|l ls IH]; intros Hr; simpl; [lia|].
  pose proof (child_phi l (Hr l (or_introl eq_refl))) as H1.
  specialize (IH (fun x Hx => Hr x (or_intror Hx))). lia.
Qed.

Lemma run_phi : reps o * sum_over (c w t) (ordered_layers w) <= phi (r_parent (run w o)) + sum_phi (r_children (run w o)).
Proof.
  unfold run.
  pose proof (ordered_in_range' w Htests) as Hrange.
  set (A := if 1 <? o_procs o then _ else _).
  assert (HA : let '(p1, _, rest, resume, _) := A in
            exists done, ordered_layers w = done ++ rest /\ reps o * sum_over (c w t) done <= phi (ps_ev p1) /\
                         (resume = false -> rest = [])).
  { unfold A. destruct (1 <? o_procs o).
    - exists []. split; [reflexivity|]. split; [simpl; lia | discriminate].
    - pose proof (parent_loop_phi (ordered_layers w) ps_init 0 0 Hrange) as H.
      destruct (parent_loop w o (ordered_layers w) ps_init 0 0) as [[[[p' ran'] rest] resume] n'].
      destruct H as [done [E [T R]]]. exists done. repeat split; auto. unfold phi in T. simpl in T. unfold phi. lia. }
  destruct A as [[[[p1 ran1] rest] resume] n1]. destruct HA as [done [E [T R]]].
  set (B := if resume then _ else _).
  assert (HB : fst (fst (fst B)) = if resume then map (child_run w o) rest else []).
  { unfold B. destruct resume; [apply (resume_seq_all w o Hnox) | reflexivity]. }
  destruct B as [[[cs ran2] f2] e2]. simpl in HB.
  set (p2 := {| ps_setup := ps_setup p1; ps_att_su := ps_att_su p1; ps_att_td := ps_att_td p1; ps_ran := 0;
                ps_fail := []; ps_err := []; ps_skip := ps_skip p1; ps_ev := ps_ev p1 |}).
  unfold tear_down_unneeded.
  set (ord := rev (order_by_bases (lw w) (filter (fun x => negb (mem x [])) (ps_setup p2)))).
  pose proof (td_loop_quiet w (ns t) (fun _ _ => eq_refl) (fun _ => eq_refl) ord true p2) as T1.
  pose proof (td_loop_quiet w nf (fun _ _ => eq_refl) (fun _ => eq_refl) ord true p2) as T2.
  destruct (td_loop w ord true p2) as [p3 c3]. simpl in T1, T2. cbn [r_parent r_children].
  assert (Hp3 : phi (ps_ev p3) = phi (ps_ev p1)) by (unfold phi; rewrite T1, T2; reflexivity).
  rewrite Hp3, E, sum_over_app.
  assert (Hrest : forall l, In l rest -> l < nlayers (lw w)) by (intros l Hl; apply Hrange; rewrite E; apply in_or_app; now right).
  destruct resume.
  - subst cs. pose proof (children_phi rest Hrest). lia.
  - subst cs. rewrite (R eq_refl). simpl. lia.
Qed.
End O.

(* the failed setUp attempts of layers of L's stack, over all processes of a run *)
Definition failed_setups_in_stack (w : rworld) (L : nat) (r : result) : nat :=
  total (nf w L) (r_parent r) + sum_children (nf w L) (r_children r).

Lemma sum_phi_split w o t L cs :
  sum_phi w o t L cs = sum_children (ns t) cs + reps o * sum_children (nf w L) cs.
Proof. induction cs as [|c cs IH]; simpl; [lia|]. rewrite IH. unfold phi. lia. Qed.

(* C04, whole run: a selected test is started once per iteration — or a layer of its own stack failed to set up *)
Theorem started_or_charged w o :
  wf (lw w) -> o_x o = false -> (forall b, In b (tests w) -> t_layer b < nlayers (lw w)) ->
  forall t b, nth_error (tests w) t = Some b ->
  starts_of t (run w o) = reps o \/ 0 < failed_setups_in_stack w (t_layer b) (run w o).
Proof.
  intros Hwf Hnox Htests t b En.
  assert (HL : t_layer b < nlayers (lw w)) by (apply Htests; eapply nth_error_In; eauto).
  assert (Hlayer : forall l, c w t l = 0 \/ l = t_layer b).
  { intros l. rewrite c_spec, En. destruct (Nat.eqb (t_layer b) l) eqn:E; [right; apply Nat.eqb_eq in E; auto | now left]. }
  pose proof (run_phi w o Hwf Hnox Htests t (t_layer b) HL Hlayer) as H.
  rewrite sum_c in H.
  assert (Hlt : Nat.ltb t (length (tests w)) = true) by (apply Nat.ltb_lt, nth_error_Some; congruence).
  rewrite Hlt, sum_phi_split in H. unfold phi in H.
  unfold failed_setups_in_stack, starts_of.
  destruct (Nat.eq_dec (total (nf w (t_layer b)) (r_parent (run w o)) + sum_children (nf w (t_layer b)) (r_children (run w o))) 0) as [Z|NZ].
  - left. pose proof (starts_at_most w o t) as Hle. revert Hle. unfold starts_of. rewrite Hlt. intros Hle.
    assert (Hz1 : total (nf w (t_layer b)) (r_parent (run w o)) = 0) by lia.
    assert (Hz2 : sum_children (nf w (t_layer b)) (r_children (run w o)) = 0) by lia.
    rewrite Hz1, Hz2 in H. lia.
  - right. lia.
Qed.
