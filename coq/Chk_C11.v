(* Chk_C11.v — case type and checker for C11 (shuffle). *)
From ZT Require Import Base Shuffle.

Record case := {
  layers : list (str * list N);      (* tests_by_layer_name before the shuffle, dict order *)
  ks : list N;                         (* 53-bit integers produced by random.Random(seed) (oracle) *)
  r1 : list (str * list N);          (* implementation: after Shuffle.global_setup, dict order *)
  r2 : list (str * list N);          (* implementation: a second run, other dict insertion order, same seed *)
  seed_ok : bool                       (* implementation: reported seed = seed used, and re-running with the
                                          seed reported by an unseeded run reproduces its order *)
}.

Definition nats_eqb := list_eqb N.eqb.
Fixpoint slookup {A} (n : str) (l : list (str * A)) : option A :=
  match l with [] => None | (k, v) :: r => if str_eqb k n then Some v else slookup n r end.

Definition same_layers (a b : list (str * list N)) : bool :=
  Nat.eqb (length a) (length b) &&
  forallb (fun '(n, t) => match slookup n b with Some t' => nats_eqb t t' | None => false end) a.

Fixpoint count (x : N) (l : list N) : nat :=
  match l with [] => 0 | y :: r => (if N.eqb x y then 1 else 0) + count x r end.
Definition permb (a b : list N) : bool :=
  Nat.eqb (length a) (length b) && forallb (fun x => Nat.eqb (count x a) (count x b)) a.

Definition c11_ok (c : case) : bool :=
  (* same layer names in the same dict positions, each layer a permutation of itself *)
  Nat.eqb (length (layers c)) (length (r1 c))
  && forallb (fun '(n, t) => match slookup n (r1 c) with Some t' => permb t t' | None => false end) (layers c)
  && list_eqb str_eqb (map fst (layers c)) (map fst (r1 c))
  (* determined by the seed and the discovered tests alone *)
  && same_layers (r1 c) (r2 c)
  && seed_ok c.

Definition hyps (c : case) : bool :=
  forallb (fun k => N.ltb k (2 ^ 53)) (ks c).

Definition check (c : case) : nat :=
  bit (negb (match shuffle_all (layers c) (ks c) with
             | Some m => same_layers m (r1 c)
             | None => false end)) 1
  + bit (negb (c11_ok c)) 2
  + bit (negb (hyps c)) 4.
