(* RunOnce.v — whole-run statement of C03 on the run model: absent a stop condition (-x) and layer set-up
   failures, every selected test is started exactly once per --repeat iteration, counted over ALL processes
   of the run (the parent and every layer subprocess), whatever the tests' outcomes, whatever the layers'
   tearDown does (errors, NotImplementedError -> later layers resumed in subprocesses), with or without -j. *)
From ZT Require Import Base Layers LayersFacts Run RunFacts RunLedger.

Definition ns (t : nat) (e : ev) : nat := match e with EStart t' => if Nat.eqb t' t then 1 else 0 | _ => 0 end.
Definition hit (t t' : nat) : nat := if Nat.eqb t' t then 1 else 0.
Definition cnt_in (t : nat) (ts : list (nat * test)) : nat := fold_right (fun it a => hit t (fst it) + a) 0 ts.
Definition sum_over (f : nat -> nat) (ls : list nat) : nat := fold_right (fun l a => f l + a) 0 ls.
Lemma sum_over_app f a b : sum_over f (a ++ b) = sum_over f a + sum_over f b.
Proof. induction a as [|x a IH]; simpl; [reflexivity|]. rewrite IH. lia. Qed.

Section O.
Variable w : rworld.
Variable o : ropts.
Hypothesis Hwf : wf (lw w).
Hypothesis Hnox : o_x o = false.
Hypothesis Htests : forall b, In b (tests w) -> t_layer b < nlayers (lw w).
Variable t : nat.

(* the set-up of layer l and of all its transitive bases succeeds at every attempt *)
Definition good (l : nat) : Prop :=
  forall x sc n, (x = l \/ tb (lw w) l x) -> l_setup (spec_of w x) = Some sc -> script_at sc n = HOk.
Lemma good_base l b : good l -> In b (bases_of (lw w) l) -> good b.
Proof.
  intros Hg Hb x sc n Hx. apply Hg. right. destruct Hx as [->|Hx]; [now apply tb1 | eapply tbS; eauto].
Qed.

Lemma p_ev_ns l t' p : total (ns t) (p_ev w l t' p) = hit t t' * p_run p.
Proof.
  destruct p as [| |ph k|r k|]; simpl; rewrite ?total_app, ?hooks_up_quiet, ?hooks_down_quiet by reflexivity; simpl;
    unfold hit; destruct (Nat.eqb t' t); reflexivity.
Qed.
Lemma flat_ns l t' ps : total (ns t) (flat_map (p_ev w l t') ps) = hit t t' * fold_right (fun p a => p_run p + a) 0 ps.
Proof. induction ps as [|p ps IH]; simpl; [lia|]. rewrite total_app, p_ev_ns, IH. lia. Qed.

Lemma run_test_ns l t' b s : total (ns t) (rs_ev (run_test w o l t' b s)) = total (ns t) (rs_ev s) + hit t t'.
Proof.
  destruct (run_test_effect w o l t' b s) as [_ [_ [_ [_ [_ [_ F7]]]]]].
  rewrite F7, total_app, flat_ns, proto_runs_once. lia.
Qed.

Lemma run_seq_ns l : forall ts s, rs_stop s = false ->
  rs_stop (run_seq w o l ts s) = false /\
  total (ns t) (rs_ev (run_seq w o l ts s)) = total (ns t) (rs_ev s) + cnt_in t ts.
Proof.
  induction ts as [|[t' b] ts IH]; intros s Hs; simpl; [split; [exact Hs | lia]|].
  rewrite Hs. destruct (IH (run_test w o l t' b s)) as [I1 I2].
  - rewrite run_test_stop, Hs, Hnox. reflexivity.
  - split; [exact I1|]. rewrite I2, run_test_ns. lia.
Qed.

Definition c (l : nat) : nat := cnt_in t (tests_of w l).
(* layers that own test t have good set-ups; the others may fail in any way *)
Hypothesis Hgood : forall l, c l = 0 \/ good l.

Lemma repeat_loop_ns : forall n l p,
  total (ns t) (ps_ev (repeat_loop w o n l p)) = total (ns t) (ps_ev p) + n * c l.
Proof.
  induction n as [|n IH]; intros l p; simpl; [lia|].
  destruct (run_seq_ns l (tests_of w l) rs_init eq_refl) as [R1 R2].
  rewrite R1, IH. cbn [ps_ev]. rewrite !total_app, R2. simpl. unfold c. lia.
Qed.

Lemma td_loop_quiet (f : ev -> nat) : (forall l h, f (ETearDown l h) = 0) -> (forall l, f (ECannot l) = 0) ->
  forall order optional p, total f (ps_ev (fst (td_loop w order optional p))) = total f (ps_ev p).
Proof.
  intros F1 F2. induction order as [|l order IH]; intros optional p; simpl; [reflexivity|].
  set (out := match l_teardown (spec_of w l) with None => HOk | Some sc => script_at sc (cnt l (ps_att_td p)) end).
  set (p1 := {| ps_setup := filter (fun x => negb (Nat.eqb x l)) (ps_setup p); ps_att_su := ps_att_su p;
                ps_att_td := inc l (ps_att_td p); ps_ran := ps_ran p; ps_fail := ps_fail p;
                ps_err := match out with HRaise => ps_err p ++ [NLayerTearDown l] | _ => ps_err p end;
                ps_skip := ps_skip p; ps_ev := ps_ev p ++ [ETearDown l out] |}).
  assert (H1 : total f (ps_ev p1) = total f (ps_ev p)) by (unfold p1; cbn [ps_ev]; rewrite total_app; simpl; rewrite F1; lia).
  assert (Hrec : forall opt, total f (ps_ev (fst (td_loop w order opt p1))) = total f (ps_ev p)) by (intros opt; rewrite IH; exact H1).
  destruct out; [apply Hrec | apply Hrec |]. destruct optional; [apply Hrec|].
  unfold p1. cbn [fst pemit ps_ev]. rewrite !total_app. simpl. rewrite F1, F2. lia.
Qed.

Lemma setup_layer_quiet : forall fuel l p,
  total (ns t) (ps_ev (fst (setup_layer w fuel l p))) = total (ns t) (ps_ev p).
Proof.
  induction fuel as [|f IH]; intros l p; [reflexivity|]. cbn [setup_layer].
  destruct (mem l (ps_setup p)); [reflexivity|].
  set (F := fun (acc : pstate * bool) b => let '(q, x) := acc in if x then (q, x) else setup_layer w f b q).
  assert (Hfold : forall bs q x, total (ns t) (ps_ev (fst (fold_left F bs (q, x)))) = total (ns t) (ps_ev q)).
  { induction bs as [|b bs IHb]; intros q x; simpl; [reflexivity|].
    destruct x; [apply IHb|]. specialize (IH b q). destruct (setup_layer w f b q) as [q1 x1]. simpl in IH.
    rewrite IHb. exact IH. }
  specialize (Hfold (bases_of (lw w) l) p false).
  destruct (fold_left F (bases_of (lw w) l) (p, false)) as [p1 exc]. simpl in Hfold.
  destruct exc; [exact Hfold|]. cbn [fst ps_ev]. rewrite total_app. simpl. lia.
Qed.

Lemma setup_layer_good : forall fuel l p, l < fuel -> good l -> snd (setup_layer w fuel l p) = false.
Proof.
  induction fuel as [|f IH]; intros l p Hl Hg; [lia|]. cbn [setup_layer].
  destruct (mem l (ps_setup p)); [reflexivity|].
  set (F := fun (acc : pstate * bool) b => let '(q, x) := acc in if x then (q, x) else setup_layer w f b q).
  assert (Hfold : forall bs q, (forall b, In b bs -> b < f /\ good b) -> snd (fold_left F bs (q, false)) = false).
  { induction bs as [|b bs IHb]; intros q Hb; simpl; [reflexivity|].
    destruct (Hb b (or_introl eq_refl)) as [B1 B2]. specialize (IH b q B1 B2).
    destruct (setup_layer w f b q) as [q1 x1]. simpl in IH. subst x1.
    apply IHb. intros b' Hb'. apply Hb. now right. }
  pose proof (Hfold (bases_of (lw w) l) p) as G1.
  destruct (fold_left F (bases_of (lw w) l) (p, false)) as [p1 exc]. simpl in G1. rewrite G1.
  2:{ intros b Hb. split; [specialize (Hwf l b Hb); lia | eapply good_base; eauto]. }
  assert (Hout : match l_setup (spec_of w l) with None => HOk | Some sc => script_at sc (cnt l (ps_att_su p1)) end = HOk).
  { destruct (l_setup (spec_of w l)) as [sc|] eqn:E; [apply (Hg l sc _ (or_introl eq_refl) E) | reflexivity]. }
  rewrite Hout. reflexivity.
Qed.

Lemma repeat_loop_quiet0 : forall n l p, c l = 0 -> total (ns t) (ps_ev (repeat_loop w o n l p)) = total (ns t) (ps_ev p).
Proof. intros n l p H. rewrite repeat_loop_ns, H. lia. Qed.

Lemma run_layer_ns l p : l < nlayers (lw w) ->
  total (ns t) (ps_ev (fst (run_layer w o l p))) =
  total (ns t) (ps_ev p) + (if snd (run_layer w o l p) then 0 else reps o * c l).
Proof.
  intros Hl. unfold run_layer, tear_down_unneeded.
  pose proof (td_loop_quiet (ns t) (fun _ _ => eq_refl) (fun _ => eq_refl)
                (rev (order_by_bases (lw w) (filter (fun x => negb (mem x (gather_layers (lw w) l))) (ps_setup p)))) false p) as Ht.
  destruct (td_loop w _ false p) as [p1 cannot]. simpl in Ht.
  destruct cannot; [simpl; lia|].
  pose proof (setup_layer_quiet (S (nlayers (lw w))) l p1) as S2.
  pose proof (setup_layer_good (S (nlayers (lw w))) l p1) as S1.
  destruct (setup_layer w (S (nlayers (lw w))) l p1) as [p2 exc]. simpl in S1, S2.
  destruct exc.
  - cbn [fst snd ps_ev]. destruct (Hgood l) as [H0|Hg]; [rewrite H0; lia|]. specialize (S1 ltac:(lia) Hg). discriminate.
  - cbn [fst snd]. rewrite repeat_loop_ns. cbn [ps_ev]. lia.
Qed.

Lemma parent_loop_ns : forall ls p ran n, (forall l, In l ls -> l < nlayers (lw w)) ->
  let '(p', _, rest, resume, _) := parent_loop w o ls p ran n in
  exists done, ls = done ++ rest /\
    total (ns t) (ps_ev p') = total (ns t) (ps_ev p) + reps o * sum_over c done /\
    (resume = false -> rest = []).
Proof.
  induction ls as [|l ls IH]; intros p ran n Hr; simpl.
  - exists []. repeat split; auto. simpl. lia.
  - pose proof (run_layer_ns l p (Hr l (or_introl eq_refl))) as Hl.
    destruct (run_layer w o l p) as [p1 cannot]. simpl in Hl. destruct cannot.
    + exists []. split; [reflexivity|]. split; [simpl; lia | discriminate].
    + rewrite Hnox. cbn [andb].
      specialize (IH p1 (ran + ps_ran p1) (S n) (fun x Hx => Hr x (or_intror Hx))).
      destruct (parent_loop w o ls p1 (ran + ps_ran p1) (S n)) as [[[[p' ran'] rest] resume] n'].
      destruct IH as [done [E [T R]]]. exists (l :: done). split; [simpl; now rewrite E|]. split; [|exact R].
      rewrite T, Hl. simpl. lia.
Qed.

Lemma child_ns l : l < nlayers (lw w) -> total (ns t) (c_ev (child_run w o l)) = reps o * c l.
Proof.
  intros Hl. unfold child_run.
  pose proof (run_layer_ns l ps_init Hl) as H.
  assert (Hc : snd (run_layer w o l ps_init) = false).
  { unfold run_layer, tear_down_unneeded. simpl ps_setup. cbn [filter].
    destruct (td_loop w (rev (order_by_bases (lw w) [])) false ps_init) as [p1 c1] eqn:E.
    assert (c1 = false) by (simpl in E; congruence). subst c1.
    destruct (setup_layer w (S (nlayers (lw w))) l p1) as [p2 exc]. destruct exc; reflexivity. }
  destruct (run_layer w o l ps_init) as [p1 c1]. simpl in Hc, H. subst c1. unfold tear_down_unneeded.
  pose proof (td_loop_quiet (ns t) (fun _ _ => eq_refl) (fun _ => eq_refl)
                (rev (order_by_bases (lw w) (filter (fun x => negb (mem x [])) (ps_setup p1)))) true p1) as Ht.
  destruct (td_loop w _ true p1) as [p2 c2]. simpl in Ht. cbn [c_ev]. rewrite Ht, H. simpl. lia.
Qed.

Lemma resume_seq_all : forall ls ran f e, fst (fst (fst (resume_seq w o ls ran f e))) = map (child_run w o) ls.
Proof.
  induction ls as [|l ls IH]; intros ran f e; simpl; [reflexivity|]. rewrite Hnox. cbn [andb].
  specialize (IH (ran + c_ran (child_run w o l)) (f ++ c_fail (child_run w o l)) (e ++ c_err (child_run w o l))).
  destruct (resume_seq w o ls _ _ _) as [[[cs r'] f'] e']. simpl in *. now rewrite IH.
Qed.

Lemma children_ns : forall ls, (forall l, In l ls -> l < nlayers (lw w)) ->
  sum_children (ns t) (map (child_run w o) ls) = reps o * sum_over c ls.
Proof.
  induction ls as [|l ls IH]; intros Hr; simpl; [lia|].
  rewrite child_ns by (apply Hr; now left). rewrite IH by (intros x Hx; apply Hr; now right). lia.
Qed.

(* starts of test t, over all processes of the run *)
Definition starts_of (r : result) : nat := total (ns t) (r_parent r) + sum_children (ns t) (r_children r).

Lemma run_starts : starts_of (run w o) = reps o * sum_over c (ordered_layers w).
Proof.
  unfold starts_of, run.
  pose proof (ordered_in_range' w Htests) as Hrange.
  set (A := if 1 <? o_procs o then _ else _).
  assert (HA : let '(p1, _, rest, resume, _) := A in
            exists done, ordered_layers w = done ++ rest /\ total (ns t) (ps_ev p1) = reps o * sum_over c done /\
                         (resume = false -> rest = [])).
  { unfold A. destruct (1 <? o_procs o).
    - exists []. split; [reflexivity|]. split; [|discriminate]. unfold pemit. cbn [ps_ev ps_init app sum_over fold_right].
      rewrite Nat.mul_0_r. induction (Run.reps o) as [|k IHk]; simpl; [reflexivity | exact IHk].
    - pose proof (parent_loop_ns (ordered_layers w) ps_init 0 0 Hrange) as H.
      destruct (parent_loop w o (ordered_layers w) ps_init 0 0) as [[[[p' ran'] rest] resume] n'].
      destruct H as [done [E [T R]]]. exists done. repeat split; auto. }
  destruct A as [[[[p1 ran1] rest] resume] n1]. destruct HA as [done [E [T R]]].
  set (B := if resume then _ else _).
  assert (HB : fst (fst (fst B)) = if resume then map (child_run w o) rest else []).
  { unfold B. destruct resume; [apply resume_seq_all | reflexivity]. }
  destruct B as [[[cs ran2] f2] e2]. simpl in HB.
  set (p2 := {| ps_setup := ps_setup p1; ps_att_su := ps_att_su p1; ps_att_td := ps_att_td p1; ps_ran := 0;
                ps_fail := []; ps_err := []; ps_skip := ps_skip p1; ps_ev := ps_ev p1 |}).
  unfold tear_down_unneeded.
  pose proof (td_loop_quiet (ns t) (fun _ _ => eq_refl) (fun _ => eq_refl)
                (rev (order_by_bases (lw w) (filter (fun x => negb (mem x [])) (ps_setup p2)))) true p2) as Ht.
  destruct (td_loop w _ true p2) as [p3 c3]. simpl in Ht. cbn [r_parent r_children].
  rewrite Ht, T, E, sum_over_app.
  assert (Hrest : forall l, In l rest -> l < nlayers (lw w)) by (intros l Hl; apply Hrange; rewrite E; apply in_or_app; now right).
  destruct resume.
  - subst cs. rewrite children_ns by exact Hrest. lia.
  - subst cs. rewrite (R eq_refl). simpl. lia.
Qed.

(* ---------------- each test belongs to exactly one layer of the ordered list ---------------- *)
Lemma cnt_in_nodup : forall ts, NoDup (map fst ts) -> cnt_in t ts = if mem t (map fst ts) then 1 else 0.
Proof.
  induction ts as [|[t' b] ts IH]; simpl; intros H; [reflexivity|].
  inversion H as [|? ? Hn Hr]; subst. rewrite (IH Hr). unfold hit. simpl.
  destruct (Nat.eqb t t') eqn:E1.
  - apply Nat.eqb_eq in E1. subst t'. rewrite Nat.eqb_refl.
    destruct (mem t (map fst ts)) eqn:Em; [apply mem_In in Em; contradiction | reflexivity].
  - rewrite Nat.eqb_sym, E1. reflexivity.
Qed.

Lemma c_spec l : c l = match nth_error (tests w) t with Some b => if Nat.eqb (t_layer b) l then 1 else 0 | None => 0 end.
Proof.
  unfold c. rewrite cnt_in_nodup by apply tests_of_once.
  destruct (mem t (map fst (tests_of w l))) eqn:Em.
  - apply mem_In in Em. apply in_map_iff in Em. destruct Em as [[t' b] [E Hin]]. simpl in E. subst t'.
    apply tests_of_spec in Hin. destruct Hin as [H1 H2]. rewrite H1. apply Nat.eqb_eq in H2. now rewrite H2.
  - destruct (nth_error (tests w) t) as [b|] eqn:En; [|reflexivity].
    destruct (Nat.eqb (t_layer b) l) eqn:El; [|reflexivity]. exfalso.
    apply mem_false in Em. apply Em. apply in_map_iff. exists (t, b). split; [reflexivity|].
    apply tests_of_spec. split; [exact En | now apply Nat.eqb_eq].
Qed.

Lemma sum_indicator (x : nat) : forall ls, NoDup ls ->
  sum_over (fun l => if Nat.eqb x l then 1 else 0) ls = if mem x ls then 1 else 0.
Proof.
  induction ls as [|y ls IH]; simpl; intros H; [reflexivity|].
  inversion H as [|? ? Hn Hr]; subst. rewrite (IH Hr).
  destruct (Nat.eqb x y) eqn:E.
  - apply Nat.eqb_eq in E. subst y. destruct (mem x ls) eqn:Em; [apply mem_In in Em; contradiction | reflexivity].
  - reflexivity.
Qed.

Lemma lwt_in : forall b, In b (tests w) -> In (t_layer b) (layers_with_tests w).
Proof.
  unfold layers_with_tests.
  assert (Hgen : forall ts acc b, (In b ts \/ In (t_layer b) acc) ->
            In (t_layer b) (fold_left (fun acc t0 => if mem (t_layer t0) acc then acc else acc ++ [t_layer t0]) ts acc)).
  { induction ts as [|x ts IH]; simpl; intros acc b H; [destruct H as [[]|H]; exact H|].
    apply IH. destruct H as [[<-|H]|H].
    - right. destruct (mem (t_layer x) acc) eqn:Em; [now apply mem_In | apply in_or_app; right; now left].
    - now left.
    - right. destruct (mem (t_layer x) acc); [exact H | apply in_or_app; now left]. }
  intros b Hb. apply Hgen. now left.
Qed.

Lemma sum_c : sum_over c (ordered_layers w) = if Nat.ltb t (length (tests w)) then 1 else 0.
Proof.
  destruct (nth_error (tests w) t) as [b|] eqn:En.
  - assert (Hlt : t < length (tests w)) by (apply nth_error_Some; congruence).
    apply Nat.ltb_lt in Hlt. rewrite Hlt.
    assert (Heq : sum_over c (ordered_layers w) = sum_over (fun l => if Nat.eqb (t_layer b) l then 1 else 0) (ordered_layers w)).
    { induction (ordered_layers w) as [|l ls IH]; simpl; [reflexivity|]. rewrite IH, c_spec, En. reflexivity. }
    rewrite Heq, sum_indicator by apply obb_nodup.
    destruct (mem (t_layer b) (ordered_layers w)) eqn:Em; [reflexivity|]. exfalso. apply mem_false in Em. apply Em.
    unfold ordered_layers. apply obb_in. apply lwt_in. eapply nth_error_In. exact En.
  - assert (Hge : length (tests w) <= t) by (apply nth_error_None; exact En).
    assert (Hlt : Nat.ltb t (length (tests w)) = false) by (apply Nat.ltb_ge; exact Hge). rewrite Hlt.
    induction (ordered_layers w) as [|l ls IH]; simpl; [reflexivity|]. rewrite IH, c_spec, En. reflexivity.
Qed.

Theorem starts_core : starts_of (run w o) = if Nat.ltb t (length (tests w)) then reps o else 0.
Proof. rewrite run_starts, sum_c. destruct (Nat.ltb t (length (tests w))); lia. Qed.
End O.

(* C03, whole run: a selected test whose layer stack can be set up is started exactly `reps` times, counted over
   all processes — whatever any test does, whatever other layers' setUp or any layer's tearDown does … *)
Theorem each_test_started_once_per_iteration w o :
  wf (lw w) -> o_x o = false -> (forall b, In b (tests w) -> t_layer b < nlayers (lw w)) ->
  forall t b, nth_error (tests w) t = Some b -> good w (t_layer b) ->
  starts_of t (run w o) = reps o.
Proof.
  intros Hwf Hnox Htests t b En Hg.
  rewrite (starts_core w o Hwf Hnox Htests t).
  - assert (Hlt : t < length (tests w)) by (apply nth_error_Some; congruence). apply Nat.ltb_lt in Hlt. now rewrite Hlt.
  - intros l. rewrite (c_spec w t l), En. destruct (Nat.eqb (t_layer b) l) eqn:E; [right | now left].
    apply Nat.eqb_eq in E. subst l. exact Hg.
Qed.

(* … and nothing that is not a selected test is ever started. *)
Theorem no_other_test_started w o :
  wf (lw w) -> o_x o = false -> (forall b, In b (tests w) -> t_layer b < nlayers (lw w)) ->
  forall t, length (tests w) <= t -> starts_of t (run w o) = 0.
Proof.
  intros Hwf Hnox Htests t Hge.
  rewrite (starts_core w o Hwf Hnox Htests t).
  - assert (Hlt : Nat.ltb t (length (tests w)) = false) by (apply Nat.ltb_ge; exact Hge). now rewrite Hlt.
  - intros l. left. rewrite (c_spec w t l). apply nth_error_None in Hge. now rewrite Hge.
Qed.
