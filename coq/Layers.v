(* Layers.v — model of gather_layers, layer_sort_key and order_by_bases (runner.py).
   A layer world: layer i has a name and base layers (indices).  `unit_layer` is the index
   of zope.testrunner.layer.UnitTests when it takes part. *)
From ZT Require Import Base.

Definition key_cmp : list str -> list str -> comparison := lex_cmp str_cmp.

Record world := { names : list str; bases : list (list nat); unit_layer : option nat }.
Definition bases_of (w : world) (l : nat) := nth l (bases w) [].
Definition name_of (w : world) (l : nat) := nth l (names w) [].
Definition nlayers (w : world) := length (names w).

(* bases are defined before the layer that lists them: the base graph is a DAG *)
Definition wf_world (w : world) : bool :=
  Nat.eqb (length (bases w)) (length (names w)) &&
  forallb (fun l => forallb (fun b => Nat.ltb b l) (bases_of w l)) (seq 0 (nlayers w)) &&
  match unit_layer w with Some u => Nat.ltb u (nlayers w) | None => true end.

(* gather_layers: pre-order, the layer and then each base's subtree, duplicates kept *)
Fixpoint gather (fuel : nat) (w : world) (l : nat) : list nat :=
  match fuel with 0 => [l] | S f => l :: flat_map (gather f w) (bases_of w l) end.
Definition gather_layers (w : world) (l : nat) := gather (S (nlayers w)) w l.

(* layer_sort_key: _gather with `seen`, bases reversed, post-order *)
Fixpoint sk (fuel : nat) (w : world) (l : nat) (seen key : list nat) : list nat * list nat :=
  match fuel with 0 => (seen, key) | S f =>
    let seen := l :: seen in
    let '(seen, key) := fold_left (fun (acc : list nat * list nat) b =>
         let '(seen, key) := acc in
         if mem b seen then (seen, key) else sk f w b seen key)
         (rev (bases_of w l)) (seen, key) in
    (seen, key ++ [l])
  end.
Definition is_unit (w : world) (l : nat) :=
  match unit_layer w with Some u => Nat.eqb u l | None => false end.
Definition sort_key (w : world) (l : nat) : list str :=
  map (name_of w) (filter (fun x => negb (is_unit w x)) (snd (sk (S (nlayers w)) w l [] []))).

(* sorted(layers, key=layer_sort_key, reverse=True): stable, descending *)
Fixpoint insert_desc (w : world) (x : nat) (l : list nat) : list nat :=
  match l with
  | [] => [x]
  | y :: r => match key_cmp (sort_key w y) (sort_key w x) with
              | Lt => x :: y :: r
              | _ => y :: insert_desc w x r end
  end.
Definition sort_desc (w : world) (ls : list nat) := fold_left (fun acc x => insert_desc w x acc) ls [].

Fixpoint dedup_keep (ls : list nat) (seen : list nat) (keep : nat -> bool) : list nat :=
  match ls with [] => [] | x :: r =>
    if mem x seen then dedup_keep r seen keep
    else if keep x then x :: dedup_keep r (x :: seen) keep else dedup_keep r (x :: seen) keep end.

Definition order_by_bases (w : world) (ls : list nat) : list nat :=
  let sorted := sort_desc w ls in
  let gathered := flat_map (gather_layers w) sorted in
  dedup_keep (rev gathered) [] (fun x => mem x sorted).
